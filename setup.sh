#!/bin/bash
# Builds the verifier from files under /verif only (x/tools is vendored).
set -e
cd "$(dirname "$0")/govc"
export GOFLAGS=-mod=vendor GOPROXY=off GOSUMDB=off GOTOOLCHAIN=local CGO_ENABLED=0
mkdir -p ../bin
go build -o ../bin/govc .
