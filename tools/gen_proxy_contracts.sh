#!/bin/bash
# Regenerates the contracts of the generated proxy methods from the IDL files:
#   1. builds tools/idlspec (a 40-line program over lugu/qiloop's own IDL front end) inside a scratch
#      worktree of /repo and dumps (interface, method, parameter signature, return signature, arity);
#   2. tools/gen_proxy_contracts.py writes <pkg>/zz_contracts_proxy_verif.go.
# The three LogManager methods that build or take object proxies (CreateListener, GetListener,
# AddProvider) are skipped: they call Session.Object / another proxy between Call2 and the return.
set -e
export GOFLAGS=-mod=mod GOPROXY=off GOSUMDB=off GOTOOLCHAIN=local
wt=/tmp/idlspec-wt; rm -rf $wt; git -C /repo worktree add -q --detach $wt HEAD
mkdir -p $wt/meta/cmd/idlspec && cp /verif/tools/idlspec/main.go.txt $wt/meta/cmd/idlspec/main.go
(cd $wt && go run ./meta/cmd/idlspec bus/services/services.idl > /tmp/idl_services.tsv && go run ./meta/cmd/idlspec bus/object.idl > /tmp/idl_object.tsv)
git -C /repo worktree remove --force $wt
python3 /verif/tools/gen_proxy_contracts.py /tmp/idl_services.tsv /repo/bus/services/proxy_gen.go services /repo/bus/services/zz_contracts_proxy_verif.go LogManager.CreateListener,LogManager.GetListener,LogManager.AddProvider
python3 /verif/tools/gen_proxy_contracts.py /tmp/idl_object.tsv /repo/bus/object_stub_gen.go bus /repo/bus/zz_contracts_proxy_verif.go
rm -f /tmp/idl_services.tsv /tmp/idl_object.tsv
