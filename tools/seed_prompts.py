#!/usr/bin/env python3
"""usage: tools/seed_prompts.py <wave tag> <property id>...
Writes /tmp/seedprompts/<wave>-<id>.txt: the prompt handed to a fresh sub-agent that is asked for a
breaking change of that property (property text + scratch worktree /tmp/seedwt/<wave>-<id>, nothing
from /verif). Earlier seeds of the same property are listed as excluded mechanisms (names only)."""
import json,os,glob,sys
props={json.loads(l)['id']:json.loads(l) for l in open('/verif/properties.jsonl')}
prev={}
for d in sorted(glob.glob('/verif/seeded/*/')):
    n=os.path.basename(d.rstrip('/')); pid=n.split('-')[0][:3]
    m=json.load(open(d+'meta.json'))
    for q in m.get('property',pid).split():
        prev.setdefault(q,[]).append(n.split('-',1)[1].replace('-',' ')+': '+m.get('needs','')[:160])
TEMPLATE='''You are helping to evaluate a verification effort for the Go project lugu/qiloop (an implementation of the QiMessaging RPC protocol). Your job is to act as a realistic source of regressions: produce ONE change to the project that BREAKS the semantic property quoted below while the project still compiles and its whole existing test suite still passes, plus a demonstration test that exposes the breakage.

Your private scratch copy of the repository (a git worktree) is: {wt}
Work ONLY inside that directory. Never read or write /repo or /verif (they are off limits; do not even look at them). Do not commit anything; leave your change as uncommitted modifications of the worktree. (The worktree already shows some files named zz_contracts*_verif.go as deleted: ignore them, do not restore them, and do not use `git stash` - to check the unmodified behaviour save your diff with `git diff -- <your files> > /tmp/{tag}.patch`, `git apply -R` it, run, and `git apply` it again.)

Every shell command needs this environment first (it does not persist between commands; there is no network):
  export GOFLAGS=-mod=mod GOPROXY=off GOSUMDB=off GOTOOLCHAIN=local
Build: `cd {wt} && go build ./...`   Whole suite: `cd {wt} && go test -vet=off -count=1 ./...` (about 15 s; examples/clock TestSynchronizedTimestamp is timing dependent and may rarely flake also on the unmodified tree, re-run once in that case).

THE PROPERTY ({pid}: {title})
{statement}
Quantified over: {quant}
Where it lives: {anchors}

WHAT TO PRODUCE
1. A change to non-test source files of the project (hand-written or generated *.go files under the worktree; not test files, not go.mod) such that the property no longer holds for some input / schedule / fault / sequence of operations. It must look like something a maintainer could plausibly commit (a refactoring, an optimisation, a "simplification", a tightened or loosened condition, reordered statements, a changed error path) - not sabotage with an obvious marker. Keep it SMALL AND LOCAL: change a condition, an expression, an index, the order of two statements, an error path, a lock scope - ideally under 15 changed lines, no new files, no new exported API, no renames of existing functions/variables, no new dependencies.
2. The breakage must need something SPECIFIC to manifest - a particular interleaving, a fault at a particular point, a multi-step sequence, an unusual/boundary input, or two cooperating sites that each look fine alone - so that ordinary use and the existing tests do not expose it. The whole existing suite must still pass with your change.
3. A demonstration: a NEW test file named zz_seed_demo_test.go placed in the directory of the package it tests (same package name, i.e. an in-package test), containing `func TestSeedDemo(t *testing.T)`. It must PASS on the unmodified tree and FAIL reliably (3 runs out of 3) with your change, when run as `go test -vet=off -count=1 -run 'TestSeedDemo$' ./<pkgdir>/` (if it needs -race or another flag, say so). A hang counts as failure only if the test itself turns it into a failure with a timeout of a few seconds. Verify both facts yourself, then run the whole suite (the demo file is allowed to fail in the suite run; everything else must pass).

ALREADY TRIED BY OTHERS - do NOT repeat these mechanisms or close variants of them; pick a different function or a different aspect of the property:
{prev}
{steer}
FINAL ANSWER (plain text): the path of the demo file; the exact command to run it and any flags; `git diff --stat` output for your files; a 3-5 line description of the change, which part of the property it breaks, and exactly what is needed for it to manifest; the observed output of the demo with and without the change. If after a serious effort you cannot find a change that passes the whole suite, say so honestly rather than delivering something that fails the suite.
'''
steer={}
# optional steering per property (set from the environment: SEED_STEER_C04="...")
for k,v in os.environ.items():
    if k.startswith('SEED_STEER_'): steer[k[len('SEED_STEER_'):]]='\nWHERE TO LOOK THIS TIME: '+v+'\n'
wave=sys.argv[1]
os.makedirs('/tmp/seedprompts',exist_ok=True)
for pid in sys.argv[2:]:
    p=props[pid]; tag=wave+'-'+pid
    t=TEMPLATE.format(wt='/tmp/seedwt/'+tag,tag=tag,pid=pid,title=p['title'],statement=p['statement'],quant=p['quantifier']['text'],anchors=json.dumps(p['anchors']),prev='\n'.join(' - '+x for x in prev.get(pid,[])),steer=steer.get(pid,''))
    open('/tmp/seedprompts/%s.txt'%tag,'w').write(t)
    print(tag,len(t))
