import json,sys
name,prop,needs,caught=sys.argv[1:5]
demo=sys.argv[5] if len(sys.argv)>5 else ""
json.dump({"property":prop,"needs":needs,"demo":demo,"caught_by":caught,
"source":"fresh sub-agent given only the property text and a scratch worktree (twenty-first wave; small local change demanded; earlier mechanisms listed as excluded)",
"confirmed":"tools/seed_import.sh: on a scratch worktree of /repo HEAD the demo passes without the patch; with the patch the tree builds, the existing suite passes, the demo fails 3/3",
"ran":"bin/govc check --repo <scratch> --prop "+prop.split()[0]},open('/verif/seeded/%s/meta.json'%name,'w'),indent=1)
