#!/bin/bash
# usage: tools/seed_import.sh <seed name> <worktree> <property id> [extra go test flags for the demo]
# Imports a seeded breaking change produced in <worktree> (a git worktree of /repo): extracts the
# patch and the demonstration, re-confirms on a scratch worktree of /repo HEAD that (a) the demo
# passes without the change, (b) with the change the tree builds, the existing suite passes and the
# demo fails, then runs the property check against the changed tree. Writes /verif/seeded/<name>/.
set -u
name=$1; wt=$2; prop=$3; shift 3; demoflags="$*"
export GOFLAGS=-mod=mod GOPROXY=off GOSUMDB=off GOTOOLCHAIN=local
out=/verif/seeded/$name; mkdir -p $out
cd $wt
demo=$(git status --short | grep zz_seed_demo_test.go | awk '{print $2}')
files=$(git status --short | grep -v zz_contracts | grep -v zz_seed_demo_test.go | awk '{print $2}')
git diff -- $files > $out/patch.diff
for f in $(git status --short | grep '^??' | grep -v zz_seed_demo_test.go | awk '{print $2}'); do git diff --no-index /dev/null $f >> $out/patch.diff; done
cp $demo $out/$(basename $demo)
demopkg=./$(dirname $demo)
sc=/tmp/seedcheck.$name; rm -rf $sc
git -C /repo worktree add -q --detach $sc HEAD
cp $wt/$demo $sc/$demo
cd $sc
r_nochange=$(go test -vet=off -count=1 $demoflags -run 'TestSeedDemo$' $demopkg 2>&1 | tail -3)
echo "$r_nochange" | grep -q '^ok' && demo_pass_without=true || demo_pass_without=false
git apply $out/patch.diff || { echo "PATCH DOES NOT APPLY"; }
go build ./... 2>&1 | tail -3; build_ok=$?
mv $demo /tmp/seeddemo.$name.go
suite=$(go test -vet=off -count=1 ./... 2>&1 | grep -v 'no test files' | grep -v '^ok' | head -5)
if [ -n "$suite" ]; then # re-run once: examples/clock TestSynchronizedTimestamp is timing dependent on the unmodified tree too
  suite=$(go test -vet=off -count=1 ./... 2>&1 | grep -v 'no test files' | grep -v '^ok' | head -5)
fi
[ -z "$suite" ] && suite_pass=true || suite_pass=false
mv /tmp/seeddemo.$name.go $demo
fails=0; for i in 1 2 3; do go test -vet=off -count=1 $demoflags -run 'TestSeedDemo$' $demopkg >/tmp/seeddemo.$name.out 2>&1 || fails=$((fails+1)); done
demo_out=$(grep -v '^ok' /tmp/seeddemo.$name.out | head -8)
rm $demo
# run the property check(s) against the changed tree
checkout=""
for p in $prop; do
  res=$(cd /verif && bin/govc check --repo $sc --prop $p --outroot /tmp/seedcheck-out.$name 2>&1)
  nv=$(echo "$res" | grep -c '^VIOLATION'); nr=$(echo "$res" | grep '^VIOLATION' | grep -vc no-failing-input-found)
  checkout="$checkout $p:violations=$nv,replayed=$nr"
  echo "$res" | grep '^VIOLATION' | sed "s#/tmp/seedcheck-out.$name#<out>#" | head -6 > $out/check_$p.txt
  mkdir -p $out/replays_$p; cp /tmp/seedcheck-out.$name/replays/$p/*.json $out/replays_$p/ 2>/dev/null
done
cd /; git -C /repo worktree remove --force $sc; rm -rf /tmp/seedcheck-out.$name /tmp/seeddemo.$name.out
echo "name=$name demo_pass_without=$demo_pass_without suite_pass_with=$suite_pass demo_fails_with=$fails/3 checks:$checkout"
echo "suite failures: $suite"
echo "demo output: $demo_out"
