#!/bin/bash
# usage: tools/seed_recheck.sh [pattern]   — re-run the property checks against every kept seeded
# change (seeded/<name>/patch.diff applied to a scratch copy of /repo); rewrites check_<prop>.txt.
cd "$(dirname "$0")/.."
pat="${1:-}"
fail=0
for sd in seeded/*${pat}*/; do
  name=$(basename $sd)
  d=$(mktemp -d /tmp/verif-seedre.XXXXXX)
  rsync -a --exclude=.git "${VP_RUN_REPO:-/repo}/" "$d/"
  if ! (cd "$d" && patch -s -p1 < "$OLDPWD/$sd/patch.diff"); then echo "PATCH-FAILED $name"; fail=1; rm -rf "$d"; continue; fi
  for f in $sd/check_*.txt; do
    prop=$(basename $f .txt | sed 's/check_//')
    out=$(bin/govc check --repo "$d" --prop "$prop" --outroot /tmp/verif-seedre-out.$$ 2>&1)
    nv=$(echo "$out" | grep -c '^VIOLATION'); nr=$(echo "$out" | grep '^VIOLATION' | grep -vc no-failing-input-found)
    echo "$out" | grep '^VIOLATION' | sed "s#/tmp/verif-seedre-out.$$#<out>#" | head -6 > $f
    if [ "$nv" -gt 0 ]; then echo "ok   $name $prop: $nv violations ($nr replayed)"; else echo "MISS $name $prop"; fail=1; fi
  done
  rm -rf "$d" /tmp/verif-seedre-out.$$
done
exit $fail
