#!/bin/bash
# Self-test of the machinery (not a registered check): every patch under selftest/mutants must be
# reported as a VIOLATION of the property named in its file name (C<nn>_...), every patch under
# selftest/benign must leave all listed properties green. Patches are applied to a scratch copy.
#   usage: selftest/run.sh [--benign|--mutants] [pattern]
cd "$(dirname "$0")/.."
kinds="mutants benign"
if [ "${1:-}" = "--benign" ]; then kinds=benign; shift; fi
if [ "${1:-}" = "--mutants" ]; then kinds=mutants; shift; fi
pat="${1:-}"
fail=0
for kind in $kinds; do
  for p in selftest/$kind/*${pat}*.patch; do
    [ -f "$p" ] || continue
    name=$(basename "$p" .patch)
    props=$(echo "$name" | grep -o 'C[0-9][0-9]' | sort -u)
    d=$(mktemp -d /tmp/verif-selftest.XXXXXX)
    rsync -a --exclude=.git "${VP_RUN_REPO:-/repo}/" "$d/"
    if ! (cd "$d" && patch -s -p1 < "$OLDPWD/$p"); then echo "PATCH-FAILED $name"; fail=1; rm -rf "$d"; continue; fi
    for prop in $props; do
      out=$(bin/govc check --repo "$d" --prop "$prop" --outroot /tmp/verif-selftest-out 2>&1)
      nviol=$(echo "$out" | grep -c '^VIOLATION')
      nrep=$(echo "$out" | grep '^VIOLATION' | grep -vc 'no-failing-input-found')
      if [ "$kind" = mutants ]; then
        if [ "$nviol" -gt 0 ]; then echo "ok   $name $prop: $nviol violations ($nrep replayed)"; else echo "MISS $name $prop: no violation reported"; fail=1; fi
      else
        if [ "$nviol" -eq 0 ]; then echo "ok   $name $prop: still green"; else echo "FALSE-ALARM $name $prop: $nviol violations"; echo "$out" | grep VIOLATION | head -3; fail=1; fi
      fi
    done
    rm -rf "$d"
  done
done
rm -rf /tmp/verif-selftest-out
exit $fail
