#!/usr/bin/env python3
"""Regenerates MANIFEST.json from the table below (kept in one place so it is always valid)."""
import json, subprocess

CLAIMED = {
 "C01": dict(level="proof",
   text="Every function of the framing code (ReadN/WriteN, fixed-width readers/writers, Header.Read/Write, Message.Read/Write) is verified against a contract stating the documented byte layout, exact consumption for every fragmentation allowed by the io.Reader contract, refusal of invalid headers before any payload byte, plus round-trip/injectivity lemmas; all obligations are discharged for symbolic inputs (no bound).",
   note="Assumed: io.Reader/io.Writer stream contracts, bytes.Buffer, encoding/binary byte-order helpers, fmt.Errorf (trusted/*.spec); bus/net.readError contract assumed (only on an error path); integers mathematical with explicit wrap; a Read returning (0,nil) forever is outside 'faultfree'.",
   technique="contract-based deductive verification: VC generation over go/ssa, SMT (z3/cvc5)", ref="7 C01"),
 "C02": dict(level="proof",
   text="Contracts on the dynamic-value code: every Value.Write implementer is verified to emit 'signature string then documented body' (per-kind layout clauses); every new* decoder and NewValue (including its signature dispatch table, one clause group per kind) is verified to consume exactly the encoding and to rebuild the value from those bytes; every TypeReader implementer (const, string, value, var, tuple) is verified against the interface contract 'returns exactly the bytes consumed'; newOpaque/OpaqueValue.Write store and re-emit exactly those bytes. Recursion (lists, nested values) is handled by modular use of the functions' own contracts.",
   note="Not proved: a recursive spec of list *contents* (count, bound, exact accounting and per-element use of NewValue are proved; element-wise equality follows from the recursive contracts but is not stated as one closed formula). signature.MakeReader (goparsec parser) is an assumed contract. Implementer preconditions (non-nil component readers/elements) are assumptions listed in the evidence. newOpaque maps signature 'o' to the long object-reference signature by design (clause scoped to sig != \"o\").",
   technique="contract-based deductive verification: VC generation over go/ssa, SMT (z3/cvc5)", ref="7 C02"),
 "C07": dict(level="proof",
   text="For the decoders under contract (ReadN, fixed-width readers, ReadString, Header/Message.Read, all dynamic-value decoders, all TypeReaders, ReadCapabilityMap, the generated meta-object/object-reference/service-info decoders) with NO precondition on the bytes: every index/slice/nil/make/type-assertion/division obligation of the safety sweep, every data-dependent allocation bounded by a named limit (alloc#n), every loop with a decreases clause, and loops whose trip count comes from the wire must make progress (progress#n).",
   note="Covered entry points: message, basic, dynamic values, signature-driven readers, capability map, generated meta-object / object-reference / service-info decoders (type/object, bus/directory). NOT covered (listed so nothing is over-claimed): reflection decoder, the other generated files' decoders (logger, services proxy), stub argument decoders beyond the Object stub; signature.Parse (goparsec, outside the verifier's reach) is covered only by a BOUNDED stand-in (all strings of length <= 3 (thorough: 4) over the signature alphabet; nesting sweep to depth 16 (22) with a linear time budget), labelled bounded in the evidence and never counted as proved; the IDL parser is not claimed. Memory/time 'modest multiple' is covered only through alloc bounds + progress, not a quantitative meter.",
   technique="contract-based deductive verification: zero-precondition safety sweep + alloc/progress obligations, SMT", ref="7 C07"),
 "C08": dict(level="proof",
   text="Sticky-failure ghost r.short: ReadN sets it exactly when it fails and fails whenever fewer than length bytes remain; every decoder under contract is verified to return an error whenever r.short became true during the call (no swallowed error) and, for fixed-width decoders, whenever fewer bytes than needed remain.",
   note="From obligations to the statement uses the paper lemma 'a decoder run is a function of the bytes it consumed' (DESIGN.md §7 C08). Decoders covered: message, basic, dynamic values, TypeReaders, capability map, generated meta-object / object-reference / service-info decoders; the reflection decoder and the logger/services generated decoders are not under contract.",
   technique="contract-based deductive verification: ghost-state postconditions on every decoder, SMT", ref="7 C08"),
 "C16": dict(level="proof",
   text="serviceImpl's object table under the monitor rule: Remove is verified to delete exactly the named object from both the object map and the mailbox map inside one critical section, call its OnTerminate exactly once, leave every other entry unchanged, and to change nothing for an unknown id; Receive answers a message for an id without mailbox with exactly one error reply; Add reserves an id that is free at reservation time and leaves nothing behind when activation fails; Terminate keeps the lock discipline; every access to the two maps carries a guard obligation (lock held in the right mode) and every Lock/Unlock a lock-state obligation.",
   note="Effects are stated at the linearization point (at_lock/at_unlock snapshots of the single critical section); all interleavings follow by the monitor rule (assumption). Actor/Channel methods are abstract collaborators with ghost call counters. objectImpl.Terminate -> Service.Remove plumbing, signalHandler.OnTerminate (subscribers told) and clientService (service_reference.go) are not yet under contract.",
   technique="contract-based deductive verification with lock-protected (monitor) invariants, SMT", ref="7 C16"),
 "C17": dict(level="proof",
   text="endPoint's handler table under the monitor rule on handlersMutex: the table invariant (every live slot holds a never-closed handler with an open queue, registered in exactly that slot; hence distinct slots hold distinct handlers and queues) is assumed at every Lock and proved at every Unlock of MakeHandler, RemoveHandler, dispatch and closeWith. Handler.closeWith requires 'not yet closed' and ensures 'closed once, closer then queue close'; RemoveHandler/dispatch(keep=false)/closeWith remove a handler from the table in the same critical section in which it is closed (so it is closed at most once and never sent to afterwards: every select-send carries a 'queue not closed' obligation); MakeHandler returns a slot that was free; removing an unknown id is an error that changes nothing.",
   note="Schedules only through the monitor rule. Assumed: Filter/Closer callbacks respect the documented restriction (do not add/remove handlers, do not touch queues); queues are not shared between handlers (MakeHandler precondition); goroutine spawned by closeWith performs the close (permission transfer at spawn). Deadlock freedom of closers and 'shutdown eventually happens' are not decided.",
   technique="contract-based deductive verification with lock-protected (monitor) invariants and ghost close counters, SMT", ref="7 C17"),
 "C15": dict(level="proof",
   text="Sequential specification of the registry operations (RegisterService, ServiceReady, UnregisterService, UpdateServiceInfo, info, Service) proved as postconditions over the state at the linearization point, with the registry invariant (staging and services disjoint, every id in 1..lastID, ServiceId == key) assumed at Lock and proved at Unlock; identifiers are lastID+1 (strictly increasing, never reused); a name present in staging or services is refused (map-range loops with visited-set invariants); ready moves staging->services and emits exactly one service-added event, unregister emits service-removed exactly when the service was visible; updates cannot change name or id. Every access to the three fields carries a guard obligation, each operation has exactly one critical section, and events are emitted inside it: with the monitor rule this gives linearizability in the order of the critical sections.",
   note="Linearizability = sequential spec + one critical section per operation + monitor rule (assumption, not machine-checked). History assumption: fewer than 2^32-1 registrations (monitor_assume lastID < 2^32-1). Services() (sorted listing; append of struct elements is outside the engine's subset) and the generated stub plumbing are not under contract. Signal helper methods are abstract with ghost event counters.",
   technique="contract-based deductive verification with lock-protected (monitor) invariants and ghost event counters, SMT", ref="7 C15"),
 "C19": dict(level="proof",
   text="Lock-state obligations on every path of Session.client, its disconnect callback, findServiceName/findServiceID and Terminate (RUnlock only when read-held, Unlock only when write-held, nothing held at return), guard obligations on every access to the connection pool and service list, and the insertion discipline: a client is stored for an address only under the write lock and only when the address is absent (mid-body assertion at the insertion), so at most one client per address is ever stored; pooled clients are never nil.",
   note="Only the crash-freedom / at-most-one-connection part is decided. 'Every request for a registered service succeeds with a working proxy' depends on the network and is not decided. Schedules through the monitor rule. bus.SelectEndPoint, bus.NewClient and the EndPoint/Channel/Client interface methods are abstract (assumed contracts).",
   technique="contract-based deductive verification: lock-state and guard obligations, monitor invariant, SMT", ref="7 C19"),
 "C06": dict(level="proof",
   text="The authentication gate as contracts over the abstract per-connection state authd: firewall passes a message iff authd or service 0; the per-connection consumer loop of server.handle hands a message to the router only on a path where firewall accepted it (mid-body assertion), otherwise replies with an error and closes; serviceAuthenticate.Authenticate can set authd only if it already was set or the Authenticator accepts exactly the StringValue user/token entries of the client's map (nothing else of the map is read; wrongly typed credentials change nothing); service 0 answers any other action with an error and changes nothing; wrapAuthenticate is the only caller; the concrete channel ties authd to its own capability map (CapabilityMap.Authenticated == state entry is Uint/Int 3, SetAuthenticated touches only that key). All message fields, payloads, capability maps and authenticators are symbolic.",
   note="authd changes only through these clauses, which is the inductive invariant over a connection's message history (composition argued, not machine-checked). Per-connection freshness of the capability map (DefaultCap in handle) and tracedChannel are not under contract; received messages are assumed non-nil; server.Router and channel.endpoint are assumed immutable after set-up. Abstract: Authenticator (uninterpreted answer), Channel send methods.",
   technique="contract-based deductive verification with ghost authentication state, SMT", ref="7 C06"),
 "C04": dict(level="proof",
   text="Per-function obligations of the call path: a mailbox hands only Call and Post messages to its object (other kinds never run a method); every generated stub method of the Object interface under contract invokes the implementation at most once, answers a Call with exactly one of reply/error, answers a decode failure with an error without calling the implementation, and sends nothing for a Post; channel.SendReply/SendError send a message carrying the request's id, service, object and action with type Reply/Error; client message ids are allocated under the mutex and advance by 2; the reply filter of client.Call selects exactly (service, object, action, id) and removes itself; client.Call registers the reply handler before sending (mid-body assertion); the server-side connection filter passes only Call/Post/Capability/Cancel; Router.Receive answers an unknown service with one error.",
   note="Composition over all interleavings (one mailbox goroutine per object, monitor rule for the handler table and the id counter) is argued in DESIGN.md, not machine-checked. Stub methods covered: 11 of bus/object_stub_gen.go (Stats with its map marshalling, and the stubs of the other generated files, are not under contract). Implementation methods are abstract with a ghost call counter and are assumed not to answer the request themselves. Ids distinct only for fewer than 2^31 calls per client.",
   technique="contract-based deductive verification with ghost invocation/reply counters, SMT", ref="7 C04"),
 "C13": dict(level="proof",
   text="Sequential contracts and monitor invariants of the signal machinery: client.State is a reference count (result = previous + add with machine wrap, entry deleted at 0, other keys untouched); signalHandler.addSignalUser refuses a duplicate user id before touching anything and otherwise appends exactly one entry carrying the request's ids; removeSignalUser removes one entry or changes nothing; UpdateSignal collects the entries whose signal id matches under the read lock into a private slice and sends one Event (type 5) carrying the subscriber's own message id, this object's service/object id and the signal id to each of them and to nobody else (assertion at the send); RegisterEvent answers every request exactly once; lock-state and guard obligations on every access to the subscriber table.",
   note="Not decided: interleavings of emit/unsubscribe beyond the monitor rule, queue-capacity effects, the client-side fan-out goroutine (client.Subscribe) and proxy.SubscribeID's 0<->1 logic (only client.State is under contract). Channel methods are abstract with ghost counters / last-message record; 'the freshly allocated local slice is not the shared table' is an explicit assumption (assume_after).",
   technique="contract-based deductive verification with monitor invariants and ghost message records, SMT", ref="7 C13"),
 "C14": dict(level="proof",
   text="Sequential contracts of the property register: objectImpl.SetProperty runs the service's validator exactly once before anything is stored (mid-body assertion at the store), stores only a value whose signature matches the declared one (assertion), emits a change event only after the store and exactly one for an accepted write carrying the property's id; a rejected write emits nothing; saveProperty stores exactly the named entry under the write lock; Property returns the stored value of the named entry under the read lock; guard and lock-state obligations on the property table; signalHandler.UpdateProperty counts the emitted event.",
   note="Linearizable-register reading under concurrent writers is NOT decided: validate / save / notify are not one critical section. stubObject.UpdateProperty (service-side updates) and the generated onPropertyChange decoders are not under contract. The validator and Value.Signature are abstract; ghost counters are assumed untouched by uncontracted callees.",
   technique="contract-based deductive verification with ghost validator/event counters and monitor invariant, SMT", ref="7 C14"),
 "C03": dict(level="other",
   text="Contracts on the reflection codec of type/encoding (qiEncoder.value/Encode, qiDecoder.value/sliceValue/mapValue/readValue/Decode) over the thin reflect model, against the same little-endian layout spec functions (le16/le32/le64, isle*, holdsStr) that the contracts of package basic, the message framing (C01) and the signature-driven readers (C02) are proved against. Proved for every value token and every stream: for each scalar kind of the grammar (bool, 8/16/32/64-bit signed and unsigned, int/uint as 64-bit, float32/64 widths, string) the encoder appends exactly the documented image of the value and the decoder consumes exactly that width and stores the number/string whose image it read; lists and maps start with their 32-bit count (the decoded list has exactly that length), elements / key-value pairs / struct fields go to the same codec in order (assertions at the recursive calls); nothing already written is rewritten; the Go-scalar fast paths of Encode/Decode write/read the same images; a failed field or element fails the whole decode (sticky failure, C08); counts are non-negative and allocation from a count is bounded by 4096 (C07).",
   note="Level 'other': relative to the thin reflect model (trusted/reflect.spec) and to abstract custom codecs (BinaryEncoder/Decoder, CustomEncoder/Decoder of user and generated types are assumed append-only / sticky and not to change container lengths). Float images are checked for width only. 'The signature-driven reader returns the bytes unchanged' is C02's claim (same layout functions); agreement between the codecs is by both being proved against those functions, not by a three-way run. Signature.Type()/Reader() construction (meta/signature/type.go) is not under contract. Element-wise content of lists/maps is covered structurally (the i-th recursive call gets element i), not as a closed-form encoding function.",
   technique="contract-based deductive verification over an assumed thin model of reflect against shared layout spec functions, SMT", ref="7 C03"),
 "C20": dict(level="other",
   text="Contracts on conversion.convertFrom / convertSlice / convertMap / convertStruct / AsInt64 / isUnsigned over a thin model of package reflect (values are opaque tokens; kind is a function of the token; length and scalar content are ghost state; rfrom is specification-only provenance). Proved for every pair of tokens and every content: a successful conversion leaves in a bool/string/integer destination exactly the source's value (integers as mathematical numbers: no truncation or wrap-around), refuses kinds outside {bool-bool, string-string, integer-integer, float-float, slice-slice, map-map, struct-struct}; a slice gets the source's length and element i is the conversion of the source's element i; the pair stored into a map is (conversion of key k, conversion of w[k]) (assertion at SetMapIndex); a struct field is converted from the first source field with the same lower-case name (assertions at the recursive call); pointers are followed on both sides; nothing outside the destination changes (quantified frame clauses proved through the recursion and all loops).",
   note="Level 'other': the proof is relative to the thin reflect model in trusted/reflect.spec (an assumed contract per reflect method, tokens as access paths, no aliasing between the two arguments, settability/nil panics and termination on cyclic types not modelled); 'converting back recovers the source' is not stated separately. KNOWN FINDINGS (deviations from the statement's strict reading that the pinned tests require or that a maintainer would not obviously accept to change): integers of different signedness or a wider source are accepted when the value fits; float64 is accepted into float32 (rounded). ConvertFrom/DecodeFrom/EncodeInto wrappers are not under contract.",
   technique="contract-based deductive verification over an assumed thin model of reflect (ghost provenance, quantified frames), SMT", ref="7 C20"),
 "C10": dict(level="other",
   text="Mechanism obligations only: Message.Write issues exactly one Write with the whole frame on an accepting stream (and none when the size check fails); endPoint.Send calls it once on the endpoint's stream; endPoint.process reads one message and dispatches it synchronously before the next read (ghost read/dispatch counters asserted at both call sites, so a `go dispatch` or a reordering fails); dispatch runs under handlersMutex (guard obligations) and offers the message to the live handlers in slot order with a non-blocking send.",
   note="Assumed, not decided: a single Write on each supported transport is atomic with respect to concurrent Writes and the stream is FIFO; goroutine schedules; 'each handler receives exactly the subsequence its filter selects' is argued from the synchronous loop plus the per-handler queue, not machine-checked.",
   technique="contract-based deductive verification of mechanism obligations (ghost counters, monitor rule), SMT", ref="7 C10"),
 "C11": dict(level="other",
   text="Mechanism obligations only: client.Call has registered its reply handler when the call message is sent (mid-body assertion), so a reply that arrives before Send returns is dispatched to it; on a failed Send the handler is removed and an error returned; endPoint.process turns a read error into closeWith(err) and leaves the loop, and every exit of the loop has closed the endpoint exactly once (ghost counter); endPoint.closeWith hands every live handler to exactly one closeWith and empties the table; Handler.closeWith closes once (C17).",
   note="Not decided: bounded time, fault positions inside the kernel/transport, schedules, the Subscribe fan-out goroutine and OnDisconnect (not under contract).",
   technique="contract-based deductive verification of mechanism obligations, SMT", ref="7 C11"),
 "C12": dict(level="other",
   text="Mechanism obligations only, over the server-side receive path (connection consumer loop, Router.Receive, serviceImpl.Receive, mailbox loop, the Object stub methods, signalHandler operations, objectImpl property operations, service 0, endpoint dispatch/RemoveHandler/process): the zero-precondition safety sweep (no reachable panic: index, nil, type assertion, close/send on closed queue), lock-state obligations on every Lock/Unlock (no re-acquisition of a held mutex, no unlock of an unheld one, nothing held at return), argument-decoding errors answered with an error reply without calling the implementation, a duplicate subscription refused without touching existing subscribers.",
   note="Only re-entrancy on the same mutex is an obligation; cycles between different mutexes are not analysed. 'Within bounded time', floods and mailbox back-pressure are not decided. Closers/filters are assumed to respect the documented restriction.",
   technique="contract-based deductive verification: safety sweep + lock-state obligations, SMT", ref="7 C12"),
}

NOT_APPLICABLE = {
 "C05": "object of the property is generated program text (jennifer ASTs) and its compilation; no first-order contract on the generator expresses 'compiles and round-trips' (DESIGN.md §8)",
 "C09": "signature.Parse is a goparsec combinator tree whose meaning lives in an uncontracted third-party library; no contract within reach states the accepted language (DESIGN.md §8)",
 "C18": "IDL parser is goparsec plus text generation; same obstacle as C09 (DESIGN.md §8)",
}
NOT_BUILT = "not built yet in this phase (planned, DESIGN.md §10); no check is registered so nothing is claimed"
ALL = ["C%02d" % i for i in range(1, 21)]

def main():
    hooks = subprocess.run(["git", "-C", "/repo", "log", "--format=%H %s"], capture_output=True, text=True).stdout.splitlines()
    hook_commits = [l.split()[0] for l in hooks if " verif hook:" in l]
    checks = []
    for pid in ALL:
        if pid not in CLAIMED:
            continue
        c = CLAIMED[pid]
        checks.append({
            "property_id": pid,
            "quick_cmd": "./check %s --tier quick" % pid,
            "thorough_cmd": "./check %s --tier thorough" % pid,
            "evidence_file": "/verif/evidence/%s.json" % pid,
            "engine": "govc",
            "level_claimed": {"category": c["level"], "text": c["text"], "design_ref": "DESIGN.md §" + c["ref"]},
            "level_note": c["note"],
            "technique": c["technique"],
        })
    na = []
    for pid in ALL:
        if pid in CLAIMED:
            continue
        na.append({"property_id": pid, "reason": NOT_APPLICABLE.get(pid, NOT_BUILT)})
    m = {
        "version": 1,
        "setup_cmd": "./setup.sh",
        "hooks": {
            "guard": "verif",
            "enable": "go build tag 'verif': comment-only contract files <pkg>/zz_contracts*_verif.go (//go:build verif); govc loads /repo with -tags=verif",
            "baseline_off_cmd": "cd /repo && GOFLAGS=-mod=mod go test -vet=off -count=1 ./...",
            "source_commits": hook_commits,
            "add_only": True,
        },
        "engines": [{"name": "govc", "path": "/verif/govc", "serves_properties": sorted(CLAIMED),
                     "kind_free_text": "own VC generator: go/packages + go/ssa (naive form) symbolic execution with state merging, Gobra-style //@ contracts, one SMT-LIB obligation per clause, z3 5.1 / z3 4.8.12 / cvc5 1.0 raced"}],
        "checks": checks,
        "not_applicable": na,
        "notes": "See DESIGN.md. Known findings: known_findings.json. Seeded breaking changes: seeded/.",
    }
    json.dump(m, open("/verif/MANIFEST.json", "w"), indent=1)
    print("manifest:", len(checks), "checks,", len(na), "not applicable")

main()
