package main

// Calls (contracts, inlining, builtins), loops, defers, and whole-function verification.

import (
	"fmt"
	"go/token"
	"go/types"
	"sort"
	"strings"

	"golang.org/x/tools/go/ssa"
)

const maxInlineDepth = 4

func (fr *Frame) execCall(st *State, in ssa.Instruction, cc *ssa.CallCommon) *Val {
	c := fr.c
	// builtins
	if b, ok := cc.Value.(*ssa.Builtin); ok {
		return fr.execBuiltin(st, in, b, cc)
	}
	var args []*Val
	for _, a := range cc.Args {
		v := fr.get(st, a)
		if escapingElemPtr(v) {
			efail("pointer to a struct element of a slice passed to a call (not supported by the struct-of-arrays model)")
		}
		args = append(args, v)
	}
	sig := cc.Signature()
	if cc.IsInvoke() {
		recv := fr.get(st, cc.Value)
		fr.checkSafe(st, in, "nil", Neq(recv.Tag, Num(0)))
		key := ifaceMethodKey(cc.Value.Type(), cc.Method.Name())
		// devirtualize when the dynamic type is statically known: use the implementer's contract
		if recv.Tag.IsNum() {
			if t := typeTagTypes[recv.Tag.NumVal().Int64()]; t != nil {
				if sel := c.eng.prog.MethodSets.MethodSet(t).Lookup(cc.Method.Pkg(), cc.Method.Name()); sel != nil {
					if mfn := c.eng.prog.MethodValue(sel); mfn != nil && mfn.Synthetic == "" {
						if mct := c.eng.contracts[mfn.RelString(nil)]; mct != nil && !mct.Inline {
							return fr.applyContract(st, in, mct, mfn.Signature, c.unbox(st, recv, t), args, mfn)
						}
					}
				}
			}
		}
		if ct := c.eng.ifaceContracts[key]; ct != nil {
			return fr.applyContract(st, in, ct, sig, recv, args, nil)
		}
		return fr.unknownCall(st, in, key, sig)
	}
	callee := cc.StaticCallee()
	var fv *FuncVal
	if callee == nil {
		v := fr.get(st, cc.Value)
		if v.Fn != nil {
			fv = v.Fn
			callee = fv.Fn
		} else {
			// dynamic call through a function value: functype contract?
			if n, ok := cc.Value.Type().(*types.Named); ok {
				if ct := c.eng.functypes[typeKey(n)]; ct != nil {
					return fr.applyContract(st, in, ct, sig, nil, args, nil)
				}
			}
			// call through a function-valued struct field with a fieldfunc contract
			if ld, ok := cc.Value.(*ssa.UnOp); ok {
				if fa, ok := ld.X.(*ssa.FieldAddr); ok {
					stT := derefType(fa.X.Type())
					if stt, ok := stT.Underlying().(*types.Struct); ok {
						key := typeKey(stT) + "." + stt.Field(fa.Field).Name()
						if ct := c.eng.fieldFuncs[key]; ct != nil {
							return fr.applyContract(st, in, ct, sig, fr.get(st, fa.X), args, nil)
						}
					}
				}
			}
			if r := fr.dynamicSplit(st, in, v, sig, args); r != nil {
				return r
			}
			return fr.unknownCall(st, in, "dynamic call of "+cc.Value.Name()+" "+cc.Value.Type().String(), sig)
		}
	} else if mc, ok := cc.Value.(*ssa.MakeClosure); ok {
		v := fr.get(st, mc)
		fv = v.Fn
	}
	key := callee.RelString(nil)
	if strings.HasPrefix(key, "ssa:") || callee.Name() == "ssa:deferstack" {
		return &Val{K: VScalar, T: sig.Results().At(0).Type(), X: Num(0)}
	}
	ct := c.eng.contracts[key]
	if ct != nil && !ct.Inline {
		var recv *Val
		a := args
		if sig.Recv() != nil && len(a) > 0 {
			recv = a[0]
			a = a[1:]
		}
		if callee.Parent() != nil {
			// contracted function literal: the header's receiver only names the enclosing method;
			// captured variables are bound by name from the closure's bindings
			cc2 := *ct
			cc2.Recv = nil
			cc2.extraVars = map[string]*Val{}
			if fv != nil {
				for i, f := range callee.FreeVars {
					if i < len(fv.Bindings) {
						b := fv.Bindings[i]
						if _, isPtr := f.Type().Underlying().(*types.Pointer); isPtr {
							func() {
								defer func() { recover() }()
								cc2.extraVars[f.Name()] = c.load(st, b)
							}()
						} else {
							cc2.extraVars[f.Name()] = b
						}
					}
				}
			}
			return fr.applyContract(st, in, &cc2, sig, nil, a, callee)
		}
		return fr.applyContract(st, in, ct, sig, recv, a, callee)
	}
	// inline closures, functions marked inline, and small loop-free /repo helpers without a contract
	if (callee.Parent() != nil || (ct != nil && ct.Inline) || (ct == nil && smallHelper(c.eng, callee))) && len(callee.Blocks) > 0 && fr.depth < maxInlineDepth {
		if callee.Parent() == nil {
			c.inlined[shortFn(key)] = true
		}
		return fr.inlineCall(st, in, callee, fv, args)
	}
	if externalReadOnly(callee) {
		// library function that only reads its arguments (formatting, string/number helpers, clocks,
		// logging): no program memory changes; results are fresh unconstrained values. Assumption,
		// listed in the evidence.
		c.readonlyExt[shortFn(key)] = true
		fr.callSiteClauses(st, in, nil, args)
		fr.bumpAlloc(st)
		r := resultVal(sig, fr.freshResults(st, sig, "ext"))
		fr.callSiteAfter(st, in)
		return r
	}
	return fr.unknownCall(st, in, key, sig)
}

// externalReadOnly: functions of the standard library that are assumed not to modify any memory
// visible to /repo code (they read their arguments and return fresh values).
func externalReadOnly(fn *ssa.Function) bool {
	if fn == nil || fn.Pkg == nil {
		// methods of library types: time.Time / time.Duration / strings.Builder are handled by package below
		if fn == nil || fn.Signature.Recv() == nil {
			return false
		}
	}
	var pkgPath string
	if fn.Pkg != nil {
		pkgPath = fn.Pkg.Pkg.Path()
	} else if fn.Object() != nil && fn.Object().Pkg() != nil {
		pkgPath = fn.Object().Pkg().Path()
	}
	switch pkgPath {
	case "strings":
		if fn.Signature.Recv() != nil {
			return false // Builder/Reader methods mutate their receiver
		}
		return true
	case "strconv", "errors", "math", "math/bits", "unicode", "unicode/utf8", "path", "path/filepath", "log":
		return fn.Signature.Recv() == nil || pkgPath == "log"
	case "time":
		if fn.Signature.Recv() != nil {
			if _, isPtr := fn.Signature.Recv().Type().(*types.Pointer); isPtr {
				return false // Timer/Ticker methods
			}
			return true
		}
		switch fn.Name() {
		case "Now", "Since", "Until", "Unix", "Date", "ParseDuration", "Parse":
			return true
		}
		return false
	case "context":
		switch fn.Name() {
		case "Background", "TODO":
			return fn.Signature.Recv() == nil
		}
		return false
	case "fmt":
		switch fn.Name() {
		case "Sprintf", "Sprint", "Sprintln", "Errorf", "Printf", "Println", "Print":
			return true
		}
	}
	return false
}

func ifaceMethodKey(t types.Type, method string) string {
	return typeKey(t) + "." + method
}

func resultVal(sig *types.Signature, vals []*Val) *Val {
	switch sig.Results().Len() {
	case 0:
		return &Val{K: VTuple, T: sig.Results()}
	case 1:
		return vals[0]
	}
	return &Val{K: VTuple, T: sig.Results(), Fs: vals}
}

func (fr *Frame) freshResults(st *State, sig *types.Signature, hint string) []*Val {
	var out []*Val
	for i := 0; i < sig.Results().Len(); i++ {
		v, facts := freshVal(sig.Results().At(i).Type(), hint)
		for _, f := range facts {
			fr.c.addFact(st, f)
		}
		for _, f := range allocFacts(v, st.ac) {
			fr.c.addFact(st, f)
		}
		out = append(out, v)
	}
	return out
}

func (fr *Frame) bumpAlloc(st *State) {
	n := Fresh("ac", SInt)
	fr.c.addFact(st, Le(st.ac, n))
	st.ac = n
}

// lock ghost state is per thread: callees are assumed lock-balanced, so an unknown call does not
// change which locks this thread holds.
var immutableFields = map[string]bool{}
var counterGhosts = map[string]bool{}

func havocExempt(k string) bool {
	if strings.HasPrefix(k, "v:") || k == "g:lockw" || k == "g:lockr" || counterGhosts[k] {
		return true
	}
	if strings.HasPrefix(k, "f:") {
		base := k[2:]
		if i := strings.Index(base, "#"); i >= 0 {
			base = base[:i]
		}
		return immutableFields[base]
	}
	return false
}

func (fr *Frame) havocAll(st *State) {
	// exempt maps keep their value: resolve them before the merge history is dropped
	for k, srt := range heapSorts {
		if havocExempt(k) {
			st.heap[k] = st.hget(k, srt)
		}
	}
	for k := range st.heap {
		if !havocExempt(k) {
			delete(st.heap, k)
		}
	}
	// every other map, including ones not mentioned so far, reads as a new generation
	st.epoch = newEpoch()
	st.mergeOf = nil
	fr.c.notes = append(fr.c.notes, "havoc-all in "+fr.fn.Name())
	if curLog != nil {
		*curLog = append(*curLog, writeRec{"*", nil})
	}
}

// callSiteClauses: assert / assume / ghost clauses attached to a call site by the contract of the
// function being verified (keyed "callee#n").
func (fr *Frame) callSiteClauses(st *State, in ssa.Instruction, recv *Val, args []*Val) {
	c := fr.c
	ord := c.callOrd[in]
	if fr.contract == nil || c.dry > 0 && false {
		return
	}
	for i, a := range fr.contract.Asserts[ord] {
		env := fr.envAt(st)
		if recv != nil {
			env.vars["recv"] = recv
		}
		for k, av := range args {
			env.vars[fmt.Sprintf("arg%d", k)] = av
		}
		if a.Kind == "assume_after" || a.Kind == "ghost_after" {
			continue // applied by callSiteAfter / callSiteGhostAfter
		}
		if a.Kind == "cover" {
			t, err := env.evalClause(a.E)
			if err != nil {
				c.errorf("%s: cover at %s: %v", fr.fn.Name(), ord, err)
				continue
			}
			if c.dry == 0 {
				cs := st.clone()
				cs.pc = And(st.pc, t)
				cv := c.oblige(fr, cs, "cover", fmt.Sprintf("cover#%d@call:%s", i+1, ord), False, clauseTags(a, fr.contract), "this call is reachable with "+a.Text+" (completeness of the guards before it)", false)
				if cv != nil {
					cv.ExpectSat = true
				}
			}
			continue
		}
		if a.Kind == "assume" {
			t, err := env.evalClause(a.E)
			if err != nil {
				c.errorf("%s: assume at %s: %v", fr.fn.Name(), ord, err)
				continue
			}
			c.addFact(st, t)
			c.trusted["ASSUMED in "+shortFn(fr.fn.RelString(nil))+" at "+ord+": "+a.Text] = true
			continue
		}
		if a.Kind == "ghost" {
			if err := c.ghostAssign(env, a); err != nil {
				c.errorf("%s: ghost update at %s: %v", fr.fn.Name(), ord, err)
			}
			continue
		}
		t, err := env.evalClause(a.E)
		if err != nil {
			c.errorf("%s: assert at %s: %v", fr.fn.Name(), ord, err)
			continue
		}
		c.oblige(fr, st, "assert", fmt.Sprintf("assert#%d@call:%s", i+1, ord), t, clauseTags(a, fr.contract), a.Text, false)
		c.addFact(st, t)
	}
}

// callSiteAfter: `assume_after` clauses, evaluated in the state right after the call returned
// (e.g. after a lock acquisition has havocked the protected state). Listed as assumptions.
func (fr *Frame) callSiteAfter(st *State, in ssa.Instruction) {
	c := fr.c
	if fr.contract == nil {
		return
	}
	ord := c.callOrd[in]
	for _, a := range fr.contract.Asserts[ord] {
		if a.Kind != "assume_after" {
			continue
		}
		env := fr.envAt(st)
		t, err := env.evalClause(a.E)
		if err != nil {
			c.errorf("%s: assume_after at %s: %v", fr.fn.Name(), ord, err)
			continue
		}
		c.addFact(st, t)
		c.trusted["ASSUMED in "+shortFn(fr.fn.RelString(nil))+" after "+ord+": "+a.Text] = true
	}
}

// callSiteGhostAfter: `ghost_after` clauses of a call site, applied in the state right after the call
// returned, with result0, result1, ... bound to the call's results.
func (fr *Frame) callSiteGhostAfter(st *State, in ssa.Instruction, results []*Val) {
	c := fr.c
	if fr.contract == nil {
		return
	}
	ord := c.callOrd[in]
	for _, a := range fr.contract.Asserts[ord] {
		if a.Kind != "ghost_after" {
			continue
		}
		env := fr.envAt(st)
		for k, r := range results {
			env.vars[fmt.Sprintf("result%d", k)] = r
		}
		if err := c.ghostAssign(env, a); err != nil {
			c.errorf("%s: ghost_after at %s: %v", fr.fn.Name(), ord, err)
		}
	}
}

func (fr *Frame) unknownCall(st *State, in ssa.Instruction, what string, sig *types.Signature) *Val {
	c := fr.c
	c.unknown[what] = true
	fr.callSiteClauses(st, in, nil, nil)
	pre := st.clone()
	fr.havocAll(st)
	fr.restoreLocked(pre, st)
	fr.restoreCaptured(pre, st)
	fr.restorePrivate(pre, st)
	fr.bumpAlloc(st)
	res := fr.freshResults(st, sig, "unk")
	fr.callSiteGhostAfter(st, in, res)
	return resultVal(sig, res)
}

// contractVars binds receiver/parameter/result names of a contract.
func contractVars(ct *Contract, sig *types.Signature, recv *Val, args []*Val, results []*Val) (map[string]*Val, error) {
	vars := map[string]*Val{}
	if ct.Recv != nil {
		if recv == nil {
			return nil, fmt.Errorf("contract %s names a receiver but the call has none", ct.Key)
		}
		vars[ct.Recv.Name] = recv
	}
	if len(ct.Params) != len(args) {
		return nil, fmt.Errorf("contract %s declares %d parameters, function has %d", ct.Key, len(ct.Params), len(args))
	}
	for i, p := range ct.Params {
		vars[p.Name] = args[i]
	}
	for k, v := range ct.extraVars {
		vars[k] = v
	}
	defer func() {
		for a, c := range ct.Aliases {
			if v, ok := vars[c]; ok {
				if _, clash := vars[a]; !clash {
					vars[a] = v
				}
			}
		}
	}()
	if results != nil {
		if len(ct.Results) != len(results) {
			return nil, fmt.Errorf("contract %s declares %d results, function has %d", ct.Key, len(ct.Results), len(results))
		}
		for i, r := range ct.Results {
			vars[r.Name] = results[i]
		}
	}
	return vars, nil
}

func (c *FnCtx) pkgOfContract(ct *Contract, callee *ssa.Function) *types.Package {
	if callee != nil && callee.Pkg != nil {
		return callee.Pkg.Pkg
	}
	// interface / functype contracts: package of the declaring spec file, else by key prefix
	if p := c.eng.contractPkg[ct]; p != nil {
		return p
	}
	return nil
}

func (fr *Frame) applyContract(st *State, in ssa.Instruction, ct *Contract, sig *types.Signature, recv *Val, args []*Val, callee *ssa.Function) *Val {
	c := fr.c
	c.used[ct.Key] = true
	if ct.IsTrustedFile || ct.Trusted {
		c.trusted[ct.Key] = true
	}
	vars, err := contractVars(ct, sig, recv, args, nil)
	if err != nil {
		c.errorf("%v", err)
		return fr.unknownCall(st, in, ct.Key, sig)
	}
	pkg := c.pkgOfContract(ct, callee)
	ord := c.callOrd[in]
	// user assertions attached to this call site
	fr.callSiteClauses(st, in, recv, args)
	if false {
		for i, a := range fr.contract.Asserts[ord] {
			env := fr.envAt(st)
			// the call's actual receiver and arguments are available as recv, arg0, arg1, ...
			if recv != nil {
				env.vars["recv"] = recv
			}
			for k, av := range args {
				env.vars[fmt.Sprintf("arg%d", k)] = av
			}
			if a.Kind == "assume" {
				// environment assumption (e.g. about a value received from a channel): not proved,
				// listed in the evidence
				t, err := env.evalClause(a.E)
				if err != nil {
					c.errorf("%s: assume at %s: %v", fr.fn.Name(), ord, err)
					continue
				}
				c.addFact(st, t)
				c.trusted["ASSUMED in "+shortFn(fr.fn.RelString(nil))+" at "+ord+": "+a.Text] = true
				continue
			}
			if a.Kind == "ghost" {
				if err := c.ghostAssign(env, a); err != nil {
					c.errorf("%s: ghost update at %s: %v", fr.fn.Name(), ord, err)
				}
				continue
			}
			t, err := env.evalClause(a.E)
			if err != nil {
				c.errorf("%s: assert at %s: %v", fr.fn.Name(), ord, err)
				continue
			}
			c.oblige(fr, st, "assert", fmt.Sprintf("assert#%d@call:%s", i+1, ord), t, clauseTags(a, fr.contract), a.Text, false)
			c.addFact(st, t)
		}
	}
	pre := st.clone()
	env := &Env{c: c, cur: st, old: nil, vars: vars, pkg: pkg}
	for i, r := range ct.Requires {
		t, err := env.evalClause(r.E)
		if err != nil {
			c.errorf("%s: requires#%d of %s: %v", fr.fn.Name(), i+1, ct.Key, err)
			continue
		}
		c.oblige(fr, st, "requires", fmt.Sprintf("requires#%d@call:%s", i+1, ord), t, nil, r.Text, true)
		c.addFact(st, t)
	}
	// lock protocol hooks
	fr.lockHook(st, in, ct, recv, true)
	// havoc the frame
	for _, m := range ct.Modifies {
		locs, err := env.evalLocs(m)
		if err != nil {
			c.errorf("%s: %v", ct.Key, err)
			continue
		}
		fr.havocLocs(st, locs)
		for _, l := range locs {
			if counterGhosts[l.mapName] {
				c.counterWrites[l.mapName] = "call of " + shortFn(ct.Key)
			}
			if l.mapName == "*" {
				fr.restoreLocked(pre, st)
				fr.restoreCaptured(pre, st)
				fr.restorePrivate(pre, st)
			}
		}
	}
	allocates := !ct.Pure
	if allocates {
		fr.bumpAlloc(st)
	}
	results := fr.freshResults(st, sig, "r."+lastName(ct.Key))
	vars2, err := contractVars(ct, sig, recv, args, results)
	if err != nil {
		c.errorf("%v", err)
		return resultVal(sig, results)
	}
	env2 := &Env{c: c, cur: st, old: pre, vars: vars2, pkg: pkg}
	for i, e := range ct.Ensures {
		t, err := env2.evalClause(e.E)
		if err != nil {
			// clauses over uninstantiated ghost parameters are simply not available here
			if mentionsGhost(ct, e.E) || strings.Contains(err.Error(), "at_lock()") || strings.Contains(err.Error(), "at_unlock()") {
				continue // clause about the callee's own critical section: not available to callers
			}
			c.errorf("%s: ensures#%d of %s: %v", fr.fn.Name(), i+1, ct.Key, err)
			continue
		}
		c.addFact(st, t)
	}
	fr.lockHook(st, in, ct, recv, false)
	fr.callSiteAfter(st, in)
	fr.callSiteGhostAfter(st, in, results)
	return resultVal(sig, results)
}

func lastName(k string) string {
	if i := strings.LastIndexAny(k, "./)"); i >= 0 && i+1 < len(k) {
		return k[i+1:]
	}
	return k
}

func mentionsGhost(ct *Contract, e *Expr) bool {
	if len(ct.Ghosts) == 0 {
		return false
	}
	found := false
	var rec func(x *Expr)
	rec = func(x *Expr) {
		if x.Kind == EIdent {
			for _, g := range ct.Ghosts {
				if g.Name == x.Name {
					found = true
				}
			}
		}
		for _, a := range x.Args {
			rec(a)
		}
	}
	rec(e)
	return found
}

func (fr *Frame) havocLocs(st *State, locs []Loc) {
	for _, l := range locs {
		if l.mapName == "*" {
			fr.havocAll(st)
			continue
		}
		m := st.hget(l.mapName, l.sort)
		if l.ref == nil {
			st.hset(l.mapName, Fresh("Hv."+l.mapName, l.sort))
		} else {
			st.hset(l.mapName, Store(m, l.ref, Fresh("hv."+l.mapName, l.sort.Elem())))
		}
		if curLog != nil {
			*curLog = append(*curLog, writeRec{l.mapName, l.ref})
		}
	}
}

func clauseTags(cl *Clause, ct *Contract) []string {
	if len(cl.Tags) > 0 {
		return cl.Tags
	}
	return ct.Tags
}

// envAt builds the environment for invariants/asserts inside a function body.
func (fr *Frame) envAt(st *State) *Env {
	vars := map[string]*Val{}
	for k, v := range fr.c.ghostVals {
		vars[k] = v
	}
	var pkg *types.Package
	if fr.fn.Pkg != nil {
		pkg = fr.fn.Pkg.Pkg
	} else if fr.fn.Parent() != nil && fr.fn.Parent().Pkg != nil {
		pkg = fr.fn.Parent().Pkg.Pkg
	}
	// unnamed results live in hidden cells (naive form stores them before running defers): bind
	// the contract's result names to those cells so that body-level clauses can mention them
	if fr.contract != nil && fr.depth == 0 && len(fr.fn.Blocks) > 0 {
		var cells []*ssa.Alloc
		for _, in := range fr.fn.Blocks[0].Instrs {
			if a, ok := in.(*ssa.Alloc); ok && !a.Heap {
				cells = append(cells, a)
			}
		}
		np := len(fr.fn.Params)
		res := fr.fn.Signature.Results()
		if len(cells) >= np+res.Len() && len(fr.contract.Results) == res.Len() {
			for i := 0; i < res.Len(); i++ {
				a := cells[np+i]
				if _, taken := vars[fr.contract.Results[i].Name]; taken {
					continue
				}
				if a.Comment != "" && a.Comment == fr.contract.Results[i].Name {
					continue // named result: resolved as an ordinary local
				}
				if types.Identical(derefType(a.Type()), res.At(i).Type()) && fr.allocAt[a] {
					if pv := fr.vals[a]; pv != nil {
						vars[fr.contract.Results[i].Name] = fr.c.load(st, pv)
					}
				}
			}
		}
	}
	if fr.depth == 0 && fr.fn.Parent() != nil {
		for _, fv := range fr.fn.FreeVars {
			if pv := fr.vals[fv]; pv != nil {
				if _, isPtr := fv.Type().Underlying().(*types.Pointer); isPtr {
					func() {
						defer func() { recover() }()
						vars[fv.Name()] = fr.c.load(st, pv)
					}()
				}
			}
		}
	}
	return &Env{c: fr.c, cur: st, old: fr.entry, vars: vars, pkg: pkg, frame: fr, oldVars: fr.vars}
}

// ---- inlining

func (fr *Frame) inlineCall(st *State, in ssa.Instruction, callee *ssa.Function, fv *FuncVal, args []*Val) *Val {
	c := fr.c
	nf := newFrame(c, callee)
	nf.depth = fr.depth + 1
	nf.prefix = fr.prefix + fmt.Sprintf("inl:%s/", c.callOrd[in])
	nf.contract = nil
	for i, p := range callee.Params {
		if i < len(args) {
			nf.vals[p] = args[i]
		}
	}
	if fv != nil {
		for i, f := range callee.FreeVars {
			if i < len(fv.Bindings) {
				nf.vals[f] = fv.Bindings[i]
			}
		}
	}
	nf.entry = st.clone()
	savedDefers := st.defers
	st.defers = nil
	exit, results := nf.runBody(st)
	if exit == nil {
		// callee never returns on this path: the caller's path is dead
		st.pc = False
		return resultVal(callee.Signature, fr.freshResults(st, callee.Signature, "dead"))
	}
	*st = *exit
	st.defers = savedDefers
	return resultVal(callee.Signature, results)
}

// ---- builtins

func (fr *Frame) execBuiltin(st *State, in ssa.Instruction, b *ssa.Builtin, cc *ssa.CallCommon) *Val {
	c := fr.c
	var args []*Val
	for _, a := range cc.Args {
		args = append(args, fr.get(st, a))
	}
	rt := types.Type(nil)
	if v, ok := in.(ssa.Value); ok {
		rt = v.Type()
	}
	switch b.Name() {
	case "len":
		a := args[0]
		switch {
		case a.K == VSlice:
			return scalar(rt, a.Len)
		case isStringType(cc.Args[0].Type()):
			return scalar(rt, SLen(a.X))
		}
		if _, ok := cc.Args[0].Type().Underlying().(*types.Map); ok {
			r := Ite(Eq(a.X, Num(0)), Num(0), Select(st.hget("m:len", SArr(SInt, SInt)), a.X))
			c.addFact(st, Le(Num(0), r))
			return scalar(rt, r)
		}
		if _, ok := cc.Args[0].Type().Underlying().(*types.Chan); ok {
			r := Fresh("chanlen", SInt)
			c.addFact(st, Le(Num(0), r))
			return scalar(rt, r)
		}
		if pt, ok := cc.Args[0].Type().Underlying().(*types.Pointer); ok {
			if at, ok := pt.Elem().Underlying().(*types.Array); ok {
				return scalar(rt, Num(at.Len()))
			}
		}
	case "cap":
		if args[0].K == VSlice {
			return scalar(rt, args[0].Cap)
		}
		r := Fresh("cap", SInt)
		c.addFact(st, Le(Num(0), r))
		return scalar(rt, r)
	case "append":
		return fr.execAppend(st, in, args[0], args[1], rt)
	case "copy":
		return fr.execCopy(st, args[0], args[1], cc.Args[1].Type(), rt)
	case "delete":
		fr.guardCheckC(st, in, args[0].Guard, true, "delete", args[0].X)
		mt := cc.Args[0].Type().Underlying().(*types.Map)
		c.mapDelete(st, args[0].X, mt, args[1])
		return &Val{K: VTuple}
	case "close":
		if gf, ok := c.eng.ghostFields["chclosed"]; ok {
			closed := Heap{st: st}.loadGhost(args[0].X, gf).X
			fr.checkSafe(st, in, "close", And(Not(closed), Neq(args[0].X, Num(0))))
			Heap{st: st, log: curLog}.storeGhost(args[0].X, gf, True)
		}
		return &Val{K: VTuple}
	case "print", "println":
		return &Val{K: VTuple}
	case "ssa:wrapnilchk":
		return args[0]
	case "ssa:deferstack":
		return scalar(rt, Num(0))
	case "min", "max":
		r := args[0].X
		for _, a := range args[1:] {
			if b.Name() == "min" {
				r = Ite(Le(r, a.X), r, a.X)
			} else {
				r = Ite(Ge(r, a.X), r, a.X)
			}
		}
		return scalar(rt, r)
	case "recover":
		return zeroVal(rt)
	}
	efail("unsupported builtin %s", b.Name())
	return nil
}

func (fr *Frame) execAppend(st *State, in ssa.Instruction, s, more *Val, rt types.Type) *Val {
	c := fr.c
	et := elemTypeOf(rt)
	if isStringType(more.T) || more.K != VSlice {
		efail("append(…, string...) not supported")
	}
	h := Heap{st: st, log: curLog}
	newLen := Add(s.Len, more.Len)
	fits := Le(newLen, s.Cap)
	// result storage: in place when it fits, else a fresh array with a copy of the prefix
	fresh := c.newRef(st, "append")
	ncap := Fresh("appcap", SInt)
	c.addFact(st, Le(newLen, ncap))
	ref := Ite(fits, Ite(Eq(more.Len, Num(0)), s.Ref, s.Ref), fresh)
	off := Ite(fits, s.Off, Num(0))
	cp := Ite(fits, s.Cap, ncap)
	cs := comps(et)
	srcArrs := h.elemArrays(s.Ref, et)
	moreArrs := h.elemArrays(more.Ref, et)
	newArrs := make([]*Term, len(cs))
	for i, cpn := range cs {
		a := Fresh("app"+cpn.suffix, SArr(SInt, cpn.sort))
		j := BVar("j", SInt)
		// contents: [off, off+len) = old prefix ; [off+len, off+newLen) = more ; in place: everything else unchanged
		c.addFact(st, Forall([]*Term{j}, [][]*Term{{Select(a, j)}},
			Implies(And(Le(off, j), Lt(j, Add(off, s.Len))), Eq(Select(a, j), Select(srcArrs[i], Add(s.Off, Sub(j, off)))))))
		c.addFact(st, Forall([]*Term{j}, [][]*Term{{Select(a, j)}},
			Implies(And(Le(Add(off, s.Len), j), Lt(j, Add(off, newLen))), Eq(Select(a, j), Select(moreArrs[i], Add(more.Off, Sub(j, Add(off, s.Len))))))))
		c.addFact(st, Implies(fits, Forall([]*Term{j}, [][]*Term{{Select(a, j)}},
			Implies(Or(Lt(j, Add(off, s.Len)), Ge(j, Add(off, newLen))), Eq(Select(a, j), Select(srcArrs[i], j))))))
		newArrs[i] = a
	}
	// name the result's components (keeps ite out of quantifier patterns)
	nref, noff, ncp := Fresh("app.ref", SInt), Fresh("app.off", SInt), Fresh("app.cap", SInt)
	c.addFact(st, And(Eq(nref, ref), Eq(noff, off), Eq(ncp, cp)))
	h.setElemArrays(nref, et, newArrs)
	r := &Val{K: VSlice, T: rt, Ref: nref, Off: noff, Len: newLen, Cap: ncp}
	for _, f := range typeInv(r) {
		c.addFact(st, f)
	}
	c.addFact(st, Lt(nref, st.ac))
	return r
}

func (fr *Frame) execCopy(st *State, dst, src *Val, srcT types.Type, rt types.Type) *Val {
	c := fr.c
	et := elemTypeOf(dst.T)
	h := Heap{st: st, log: curLog}
	var srcLen *Term
	var srcAt func(i int, j *Term) *Term
	if isStringType(srcT) {
		srcLen = SLen(src.X)
		srcAt = func(i int, j *Term) *Term { return SAt(src.X, j) }
	} else {
		srcLen = src.Len
		arrs := h.elemArrays(src.Ref, et)
		srcAt = func(i int, j *Term) *Term { return Select(arrs[i], Add(src.Off, j)) }
	}
	n := Ite(Le(dst.Len, srcLen), dst.Len, srcLen)
	cs := comps(et)
	olds := h.elemArrays(dst.Ref, et)
	news := make([]*Term, len(cs))
	for i, cpn := range cs {
		a := Fresh("copy"+cpn.suffix, SArr(SInt, cpn.sort))
		j := BVar("j", SInt)
		c.addFact(st, Forall([]*Term{j}, [][]*Term{{Select(a, j)}},
			Ite(And(Le(dst.Off, j), Lt(j, Add(dst.Off, n))), Eq(Select(a, j), srcAt(i, Sub(j, dst.Off))), Eq(Select(a, j), Select(olds[i], j)))))
		news[i] = a
	}
	h.setElemArrays(dst.Ref, et, news)
	return scalar(rt, n)
}

// ---- go statements and defers

func (fr *Frame) execGo(st *State, x *ssa.Go) {
	c := fr.c
	cc := x.Common()
	name := calleeName(cc)
	if fr.contract != nil && fr.depth == 0 && fr.contract.Opts["nospawn"] == "yes" && c.dry == 0 {
		// mechanism obligation: this function does its work itself, in program order (e.g. a loop that
		// serialises refreshes); starting a goroutine here is a failing obligation
		c.oblige(fr, st, "safe", fmt.Sprintf("safe:nospawn#%d", c.ordinals[x]), False, nil, "goroutine started in a function declared nospawn: "+x.String(), false)
	}
	// A goroutine runs concurrently: nothing is learned; its effects on shared state are only
	// visible through monitors. We check its callee's preconditions when it has a contract.
	if callee := cc.StaticCallee(); callee != nil {
		if ct := c.eng.contracts[callee.RelString(nil)]; ct != nil {
			var args []*Val
			for _, a := range cc.Args {
				args = append(args, fr.get(st, a))
			}
			var recv *Val
			if cc.Signature().Recv() != nil && len(args) > 0 {
				recv = args[0]
				args = args[1:]
			}
			vars, err := contractVars(ct, cc.Signature(), recv, args, nil)
			if err == nil && callee.Parent() != nil {
				// go func(){...}(): captured variables are bound by name from the closure's bindings
				if fv := fr.get(st, cc.Value); fv != nil && fv.Fn != nil {
					for i, f := range callee.FreeVars {
						if i >= len(fv.Fn.Bindings) {
							continue
						}
						if _, bound := vars[f.Name()]; bound {
							continue
						}
						b := fv.Fn.Bindings[i]
						if _, isPtr := f.Type().Underlying().(*types.Pointer); isPtr {
							func() {
								defer func() { recover() }()
								vars[f.Name()] = c.load(st, b)
							}()
						} else {
							vars[f.Name()] = b
						}
					}
				}
			}
			if err == nil {
				env := &Env{c: c, cur: st, vars: vars, pkg: c.pkgOfContract(ct, callee)}
				for i, r := range ct.Requires {
					t, err := env.evalClause(r.E)
					if err != nil {
						c.errorf("go %s: %v", name, err)
						continue
					}
					c.oblige(fr, st, "requires", fmt.Sprintf("requires#%d@go:%s", i+1, c.callOrd[x]), t, nil, r.Text, true)
				}
			}
			c.used[ct.Key] = true
			// ghost effects declared with ghost_at_return on a go'd function are applied at spawn
			// (permission transfer): handled by the "spawn" option
			if ct.Opts["spawn_effects"] == "yes" {
				pre := st.clone()
				env2 := &Env{c: c, cur: st, old: pre, vars: vars, pkg: c.pkgOfContract(ct, callee)}
				for _, m := range ct.Modifies {
					locs, err := env2.evalLocs(m)
					if err == nil {
						fr.havocLocs(st, locs)
					}
				}
				for _, e := range ct.Ensures {
					if t, err := env2.evalClause(e.E); err == nil {
						c.addFact(st, t)
					}
				}
			}
			return
		}
	}
	c.notes = append(c.notes, "go "+name+" in "+fr.fn.Name()+": effects not tracked")
}

func (fr *Frame) runDefers(st *State) {
	c := fr.c
	ds := st.defers
	st.defers = nil
	for i := len(ds) - 1; i >= 0; i-- {
		d := ds[i]
		cc := d.call.Common()
		// conditional defers: execute under the guard, then merge
		run := func(s *State) {
			if b, ok := cc.Value.(*ssa.Builtin); ok {
				// builtin with pre-evaluated args: only close/delete/print matter
				switch b.Name() {
				case "close":
					if gf, ok := c.eng.ghostFields["chclosed"]; ok {
						closed := Heap{st: s}.loadGhost(d.args[0].X, gf).X
						fr.checkSafe(s, d.call, "close", Not(closed))
						Heap{st: s, log: curLog}.storeGhost(d.args[0].X, gf, True)
					}
				}
				return
			}
			fr.execDeferredCall(s, d)
		}
		if d.guard == st.pc || impliesSyntactically(st.pc, d.guard) {
			run(st)
			continue
		}
		a := st.clone()
		a.pc = And(st.pc, d.guard)
		b := st.clone()
		b.pc = And(st.pc, Not(d.guard))
		run(a)
		m := mergeStates([]*State{a, b}, "defer", func(t *Term) { c.addDef(t) })
		*st = *m
	}
}

func impliesSyntactically(pc, guard *Term) bool {
	if pc == guard || guard == True {
		return true
	}
	if pc.Op == "and" {
		for _, a := range pc.Args {
			if a == guard {
				return true
			}
		}
	}
	return false
}

func (fr *Frame) execDeferredCall(st *State, d deferEntry) {
	c := fr.c
	cc := d.call.Common()
	sig := cc.Signature()
	if cc.IsInvoke() {
		key := ifaceMethodKey(cc.Value.Type(), cc.Method.Name())
		if ct := c.eng.ifaceContracts[key]; ct != nil {
			fr.applyContract(st, d.call, ct, sig, d.fnv, d.args, nil)
			return
		}
		fr.unknownCall(st, d.call, key, sig)
		return
	}
	callee := cc.StaticCallee()
	var fv *FuncVal
	if callee == nil && d.fnv != nil && d.fnv.Fn != nil {
		fv = d.fnv.Fn
		callee = fv.Fn
	} else if d.fnv != nil && d.fnv.Fn != nil {
		fv = d.fnv.Fn
	}
	if callee == nil {
		fr.unknownCall(st, d.call, "deferred dynamic call", sig)
		return
	}
	key := callee.RelString(nil)
	if ct := c.eng.contracts[key]; ct != nil && !ct.Inline {
		var recv *Val
		a := d.args
		if sig.Recv() != nil && len(a) > 0 {
			recv = a[0]
			a = a[1:]
		}
		fr.applyContract(st, d.call, ct, sig, recv, a, callee)
		return
	}
	if callee.Parent() != nil && len(callee.Blocks) > 0 && fr.depth < maxInlineDepth {
		fr.inlineCall(st, d.call, callee, fv, d.args)
		return
	}
	fr.unknownCall(st, d.call, key, sig)
}

// ---- frames and body execution

func newFrame(c *FnCtx, fn *ssa.Function) *Frame {
	fr := &Frame{c: c, fn: fn, fnConsts: map[string]*ssa.Function{}, vals: map[ssa.Value]*Val{}, isCell: map[*ssa.Alloc]bool{}, cuts: map[*ssa.BasicBlock]*loopCut{},
		allocAt: map[*ssa.Alloc]bool{}, rangeMaps: map[*ssa.Range]*Val{}}
	fr.cfg = c.eng.cfgOf(fn)
	if _, ok := c.ordinals[firstInstr(fn)]; !ok {
		c.computeOrdinals(fn)
	}
	return fr
}

func firstInstr(fn *ssa.Function) ssa.Instruction {
	for _, b := range fn.Blocks {
		if len(b.Instrs) > 0 {
			return b.Instrs[len(b.Instrs)-1]
		}
	}
	return nil
}

type edgeKey struct {
	from *ssa.BasicBlock
	idx  int
}

// runBody executes the whole function from state st; returns merged exit state and results.
func (fr *Frame) runBody(st *State) (*State, []*Val) {
	region := map[*ssa.BasicBlock]bool{}
	for _, b := range fr.cfg.rpo {
		region[b] = true
	}
	fr.runRegion(region, fr.fn.Blocks[0], st, false)
	if len(fr.exits) == 0 {
		return nil, nil
	}
	var sts []*State
	for _, e := range fr.exits {
		sts = append(sts, e.st)
	}
	out := mergeStates(sts, fr.fn.Name()+".exit", func(t *Term) { fr.c.addDef(t) })
	nres := fr.fn.Signature.Results().Len()
	results := make([]*Val, nres)
	for i := 0; i < nres; i++ {
		var acc *Val
		for k := len(fr.exits) - 1; k >= 0; k-- {
			v := fr.exits[k].results[i]
			if acc == nil {
				acc = v
			} else {
				acc = iteVal(fr.exits[k].st.pc, v, acc)
			}
		}
		if acc.T == nil {
			acc.T = fr.fn.Signature.Results().At(i).Type()
		}
		results[i] = acc
	}
	return out, results
}

func (fr *Frame) runRegion(region map[*ssa.BasicBlock]bool, start *ssa.BasicBlock, st0 *State, dryHeader bool) {
	c := fr.c
	in := map[*ssa.BasicBlock][]*State{start: {st0}}
	for _, b := range fr.cfg.rpo {
		if !region[b] {
			continue
		}
		states := in[b]
		if len(states) == 0 {
			continue
		}
		var live []*State
		for _, s := range states {
			if s.pc != False {
				live = append(live, s)
			}
		}
		if len(live) == 0 {
			continue
		}
		st := mergeStates(live, fmt.Sprintf("%s.b%d", fr.fn.Name(), b.Index), func(t *Term) { c.addDef(t) })
		fr.curBlock = b
		if _, isHeader := fr.cfg.loopOf[b]; isHeader && !(b == start && dryHeader) {
			st = fr.cutLoop(b, st)
			if st == nil {
				continue
			}
		}
		ok := fr.execBlock(b, st, func(succ *ssa.BasicBlock, es *State) {
			if isBackEdge(b, succ) {
				if c.dry == 0 {
					fr.loopBack(succ, es)
				}
				return
			}
			if region[succ] {
				in[succ] = append(in[succ], es)
			}
		})
		_ = ok
	}
}

func (fr *Frame) execBlock(b *ssa.BasicBlock, st *State, edge func(*ssa.BasicBlock, *State)) (ok bool) {
	c := fr.c
	defer func() {
		if r := recover(); r != nil {
			if ee, isE := r.(evalError); isE {
				c.errorf("%s block %d: %s", fr.fn.Name(), b.Index, ee.msg)
				ok = false
				return
			}
			panic(r)
		}
	}()
	for _, in := range b.Instrs {
		switch x := in.(type) {
		case *ssa.If:
			cond := fr.get(st, x.Cond).X
			t := st.clone()
			t.pc = And(st.pc, cond)
			f := st.clone()
			f.pc = And(st.pc, Not(cond))
			edge(b.Succs[0], t)
			edge(b.Succs[1], f)
			return true
		case *ssa.Jump:
			edge(b.Succs[0], st)
			return true
		case *ssa.Return:
			var res []*Val
			for _, r := range x.Results {
				res = append(res, fr.get(st, r))
			}
			fr.exits = append(fr.exits, exitRec{st, res})
			if c.dry == 0 && fr.depth == 0 {
				// vacuity guard: the assumptions must not refute this return path
				cv := c.oblige(fr, st, "cover", fmt.Sprintf("cover/return#%d", c.returnOrdinal(fr.fn, x)), False, nil, "this return is not refuted by the assumptions (vacuity guard)", true)
				if cv != nil {
					cv.ExpectSat = true
					cv.Src = c.eng.sourceLine(x.Pos())
				}
			}
			return true
		case *ssa.Panic:
			if fr.contract == nil || !fr.contract.NoSafety {
				c.oblige(fr, st, "safe", fr.safeName(in, "panic"), False, nil, "explicit panic reachable", true)
			}
			return true
		default:
			fr.execInstr(st, in)
		}
	}
	return true
}

// ---- loops

type modSet struct {
	cells map[*ssa.Alloc]bool
	heap  map[string][]*Term // nil slice entry with whole=true means whole map
	whole map[string]bool
	all   bool
	alloc bool
}

func (fr *Frame) loopModSet(h *ssa.BasicBlock, st *State) *modSet {
	c := fr.c
	ms := &modSet{cells: map[*ssa.Alloc]bool{}, heap: map[string][]*Term{}, whole: map[string]bool{}}
	blocks := fr.cfg.loopOf[h]
	// syntactic: cells stored in the loop
	for b := range blocks {
		for _, in := range b.Instrs {
			switch x := in.(type) {
			case *ssa.Store:
				if a, ok := rootAlloc(x.Addr); ok {
					ms.cells[a] = true
				}
			case *ssa.Alloc:
				ms.cells[x] = true
			}
		}
	}
	// dry run for heap writes
	mark := nextID
	dry := st.clone()
	for a := range ms.cells {
		if v, ok := dry.cells[a]; ok {
			nv, _ := freshVal(derefType(a.Type()), "dry."+a.Comment)
			_ = v
			dry.cells[a] = nv
		}
	}
	for k := range dry.heap {
		dry.heap[k] = Fresh("dryH."+k, heapSorts[k])
	}
	dry.ac = Fresh("dryac", SInt)
	var log []writeRec
	savedLog := curLog
	curLog = &log
	c.dry++
	savedVals := map[ssa.Value]*Val{}
	for k, v := range fr.vals {
		savedVals[k] = v
	}
	savedExits := fr.exits
	savedAlloc := map[*ssa.Alloc]bool{}
	for k, v := range fr.allocAt {
		savedAlloc[k] = v
	}
	nerr := len(c.errs)
	fr.runRegion(blocks, h, dry, true)
	fr.vals = savedVals
	fr.exits = savedExits
	fr.allocAt = savedAlloc
	c.dry--
	curLog = savedLog
	_ = nerr
	for _, w := range log {
		if w.mapName == "*" {
			ms.all = true
			continue
		}
		if w.ref == nil || maxTermID(w.ref) >= mark {
			ms.whole[w.mapName] = true
			continue
		}
		ms.heap[w.mapName] = append(ms.heap[w.mapName], w.ref)
	}
	// propagate to an enclosing dry run
	if curLog != nil {
		for _, w := range log {
			if w.ref != nil && maxTermID(w.ref) >= mark {
				*curLog = append(*curLog, writeRec{w.mapName, nil})
			} else {
				*curLog = append(*curLog, w)
			}
		}
	}
	if dry.ac.Name != "" { // allocation inside the loop moves the counter
		ms.alloc = true
	}
	return ms
}

func maxTermID(t *Term) int {
	seen := map[*Term]bool{}
	m := 0
	var rec func(t *Term)
	rec = func(t *Term) {
		if seen[t] {
			return
		}
		seen[t] = true
		if len(t.Args) == 0 {
			if (t.Op == "var" || t.Op == "bvar") && t.id > m {
				m = t.id
			}
			return
		}
		for _, a := range t.Args {
			rec(a)
		}
	}
	rec(t)
	return m
}

func rootAlloc(v ssa.Value) (*ssa.Alloc, bool) {
	for {
		switch x := v.(type) {
		case *ssa.Alloc:
			return x, true
		case *ssa.FieldAddr:
			v = x.X
		default:
			return nil, false
		}
	}
}

func (fr *Frame) cutLoop(h *ssa.BasicBlock, st *State) *State {
	fr.curBlock = h
	c := fr.c
	ord := fr.cfg.ordinal[h]
	var spec *LoopSpec
	if fr.contract != nil {
		spec = fr.contract.Loops[ord]
	}
	// 1. invariants hold on entry
	if spec != nil && c.dry == 0 {
		env := fr.envAt(st)
		for i, inv := range spec.Invariants {
			t, err := env.evalClause(inv.E)
			if err != nil {
				c.errorf("%s loop %d invariant %d: %v", fr.fn.Name(), ord, i+1, err)
				continue
			}
			c.oblige(fr, st, "inv-entry", fmt.Sprintf("loop#%d/inv#%d/entry", ord, i+1), t, nil, inv.Text, true)
		}
	}
	// automatic invariant of range-over-slice loops: the hidden index is >= -1
	if c.dry == 0 {
		for _, t := range fr.autoRangeInv(h, st) {
			c.oblige(fr, st, "inv-entry", fmt.Sprintf("loop#%d/auto-range/entry", ord), t, nil, "hidden range index >= -1", true)
		}
	}
	// 2. havoc what the loop modifies
	ms := fr.loopModSet(h, st)
	ns := st.clone()
	pcName := Fresh(fmt.Sprintf("pc.%s.loop%d", fr.fn.Name(), ord), SBool)
	ns.pc = pcName // arbitrary iteration: reachable under some condition implied by nothing but the invariants
	c.addDef(Implies(pcName, st.pc))
	for a := range ms.cells {
		if _, ok := ns.cells[a]; ok {
			nv, facts := freshVal(derefType(a.Type()), "l."+a.Comment)
			ns.cells[a] = nv
			for _, f := range facts {
				c.addFact(ns, f)
			}
			for _, f := range allocFacts(nv, ns.ac) {
				_ = f
			}
		}
	}
	if ms.all {
		fr.havocAll(ns)
	} else {
		var names []string
		for k := range ms.whole {
			names = append(names, k)
		}
		for k := range ms.heap {
			if !ms.whole[k] {
				names = append(names, k)
			}
		}
		sort.Strings(names)
		for _, k := range names {
			srt := heapSorts[k]
			if ms.whole[k] || !srt.IsArr() {
				ns.hset(k, Fresh("Hl."+k, srt))
				if curLog != nil {
					*curLog = append(*curLog, writeRec{k, nil})
				}
				continue
			}
			m := ns.hget(k, srt)
			done := map[*Term]bool{}
			for _, r := range ms.heap[k] {
				if done[r] {
					continue
				}
				done[r] = true
				m = Store(m, r, Fresh("hl."+k, srt.Elem()))
				if curLog != nil {
					*curLog = append(*curLog, writeRec{k, r})
				}
			}
			ns.hset(k, m)
		}
	}
	nac := Fresh("ac", SInt)
	c.addFact(ns, Le(st.ac, nac))
	ns.ac = nac
	if fr.loopAc == nil {
		fr.loopAc = map[*ssa.BasicBlock]*Term{}
	}
	fr.loopAc[h] = nac // allocation counter at the start of the current iteration (iterfresh)
	// cells read as pointers must still be allocated
	for a := range ms.cells {
		if v, ok := ns.cells[a]; ok {
			for _, f := range allocFacts(v, ns.ac) {
				c.addFact(ns, f)
			}
		}
	}
	for _, t := range fr.autoRangeInv(h, ns) {
		c.addFact(ns, t)
	}
	// 3. assume invariants
	cut := &loopCut{spec: spec, ordinal: ord, header: h}
	if spec != nil {
		env := fr.envAt(ns)
		for _, inv := range spec.Invariants {
			t, err := env.evalClause(inv.E)
			if err != nil {
				continue
			}
			c.addFact(ns, t)
		}
		for _, pe := range spec.Progress {
			if v, err := evalIntClause(env, pe); err == nil {
				cut.progress = append(cut.progress, v)
			} else {
				c.errorf("%s loop %d progress: %v", fr.fn.Name(), ord, err)
			}
		}
		if spec.Decreases != nil {
			if v, err := evalIntClause(env, spec.Decreases); err == nil {
				cut.variant = v
			} else {
				c.errorf("%s loop %d decreases: %v", fr.fn.Name(), ord, err)
			}
		}
	}
	fr.cuts[h] = cut
	return ns
}

func evalIntClause(env *Env, e *Expr) (t *Term, err error) {
	defer func() {
		if r := recover(); r != nil {
			if ee, ok := r.(evalError); ok {
				err = fmt.Errorf("%s: %s", e, ee.msg)
				return
			}
			panic(r)
		}
	}()
	return env.intTerm(e), nil
}

func (fr *Frame) loopBack(h *ssa.BasicBlock, st *State) {
	c := fr.c
	cut := fr.cuts[h]
	if cut != nil {
		for _, t := range fr.autoRangeInv(h, st) {
			c.oblige(fr, st, "inv-preserved", fmt.Sprintf("loop#%d/auto-range/preserved", cut.ordinal), t, nil, "hidden range index >= -1", true)
		}
	}
	if cut == nil || cut.spec == nil {
		return
	}
	env := fr.envAt(st)
	for i, inv := range cut.spec.Invariants {
		t, err := env.evalClause(inv.E)
		if err != nil {
			c.errorf("%s loop %d invariant %d (back edge): %v", fr.fn.Name(), cut.ordinal, i+1, err)
			continue
		}
		c.oblige(fr, st, "inv-preserved", fmt.Sprintf("loop#%d/inv#%d/preserved", cut.ordinal, i+1), t, nil, inv.Text, true)
	}
	for i, pe := range cut.spec.Progress {
		if i < len(cut.progress) {
			if v, err := evalIntClause(env, pe); err == nil {
				c.oblige(fr, st, "progress", fmt.Sprintf("loop#%d/progress#%d", cut.ordinal, i+1), Lt(cut.progress[i], v), []string{"C07"}, "every iteration strictly increases "+pe.String(), false)
			}
		}
	}
	if cut.variant != nil {
		v, err := evalIntClause(env, cut.spec.Decreases)
		if err == nil {
			c.oblige(fr, st, "decreases", fmt.Sprintf("loop#%d/decreases", cut.ordinal), And(Lt(v, cut.variant), Le(Num(0), cut.variant)), []string{"C07"}, cut.spec.Decreases.String(), false)
		}
	}
}

// autoRangeInv: for range-over-slice loops headed at h, the hidden index cell is >= -1.
func (fr *Frame) autoRangeInv(h *ssa.BasicBlock, st *State) []*Term {
	var out []*Term
	if h.Comment != "rangeindex.loop" {
		return nil
	}
	for _, in := range h.Instrs {
		if u, ok := in.(*ssa.UnOp); ok {
			if a, ok := u.X.(*ssa.Alloc); ok && a.Comment == "rangeindex" {
				if v, ok := st.cells[a]; ok {
					out = append(out, Le(Num(-1), v.X))
					// and below the length the loop compares against (computed before the loop)
					for _, in2 := range h.Instrs {
						if b, ok := in2.(*ssa.BinOp); ok && b.Op == token.LSS {
							if lv, ok := fr.vals[b.Y]; ok && lv.K == VScalar {
								out = append(out, Lt(v.X, lv.X))
							}
						}
					}
				}
				break
			}
		}
	}
	return out
}

// smallHelper: a loop-free /repo function of a few instructions (accessors, constructors).
func smallHelper(e *Engine, fn *ssa.Function) bool {
	if fn.Pkg == nil || !strings.HasPrefix(fn.Pkg.Pkg.Path(), "github.com/lugu/qiloop") {
		return false
	}
	if len(fn.Blocks) == 0 || len(fn.Blocks) > 4 {
		return false
	}
	n := 0
	for _, b := range fn.Blocks {
		for _, in := range b.Instrs {
			if _, ok := in.(*ssa.DebugRef); ok {
				continue
			}
			n++
			switch in.(type) {
			case *ssa.Go, *ssa.Defer, *ssa.Select, *ssa.Send:
				return false
			}
		}
		for _, s := range b.Succs {
			if isBackEdge(b, s) {
				return false
			}
		}
	}
	return n <= 40
}

// dynamicSplit: a call through a function value whose candidates are the function constants seen
// so far in this frame (e.g. a dispatch table built from a map literal). Each candidate is applied
// under the condition that the value equals it; the remaining case is an unknown call.
func (fr *Frame) dynamicSplit(st *State, in ssa.Instruction, fv *Val, sig *types.Signature, args []*Val) *Val {
	c := fr.c
	if len(fr.fnConsts) == 0 {
		return nil
	}
	var names []string
	for n := range fr.fnConsts {
		names = append(names, n)
	}
	sort.Strings(names)
	var outs []*State
	var results [][]*Val
	rest := st.pc
	for _, n := range names {
		fn := fr.fnConsts[n]
		if fn.Signature.Recv() != nil || !types.Identical(fn.Signature, sig) {
			continue
		}
		id := fnID(n)
		cond := Eq(fv.X, id)
		s2 := st.clone()
		s2.pc = And(st.pc, cond)
		rest = And(rest, Not(cond))
		var r *Val
		if ct := c.eng.contracts[n]; ct != nil && !ct.Inline {
			r = fr.applyContract(s2, in, ct, sig, nil, args, fn)
		} else {
			r = fr.unknownCall(s2, in, n, sig)
		}
		outs = append(outs, s2)
		results = append(results, tupleElems(r, sig))
	}
	if len(outs) == 0 {
		return nil
	}
	s3 := st.clone()
	s3.pc = rest
	r3 := fr.unknownCall(s3, in, "dynamic call (no candidate matched)", sig)
	delete(c.unknown, "dynamic call (no candidate matched)")
	c.notes = append(c.notes, "dynamic call split over "+fmt.Sprint(len(outs))+" candidates in "+fr.fn.Name())
	outs = append(outs, s3)
	results = append(results, tupleElems(r3, sig))
	m := mergeStates(outs, fr.fn.Name()+".dyn", func(t *Term) { c.addDef(t) })
	nres := sig.Results().Len()
	merged := make([]*Val, nres)
	for i := 0; i < nres; i++ {
		var acc *Val
		for k := len(outs) - 1; k >= 0; k-- {
			if acc == nil {
				acc = results[k][i]
			} else {
				acc = iteVal(outs[k].pc, results[k][i], acc)
			}
		}
		if acc.T == nil {
			acc.T = sig.Results().At(i).Type()
		}
		merged[i] = acc
	}
	defers := st.defers
	*st = *m
	st.defers = defers
	return resultVal(sig, merged)
}

func tupleElems(r *Val, sig *types.Signature) []*Val {
	switch sig.Results().Len() {
	case 0:
		return nil
	case 1:
		return []*Val{r}
	}
	return r.Fs
}

// returnOrdinal numbers the return statements of a function in source order.
func (c *FnCtx) returnOrdinal(fn *ssa.Function, r *ssa.Return) int {
	type it struct {
		r   *ssa.Return
		pos token.Pos
		seq int
	}
	var all []it
	seq := 0
	for _, b := range fn.Blocks {
		for _, in := range b.Instrs {
			if x, ok := in.(*ssa.Return); ok {
				seq++
				all = append(all, it{x, x.Pos(), seq})
			}
		}
	}
	sort.SliceStable(all, func(i, j int) bool {
		if all[i].pos != all[j].pos && all[i].pos != token.NoPos && all[j].pos != token.NoPos {
			return all[i].pos < all[j].pos
		}
		return all[i].seq < all[j].seq
	})
	for i, x := range all {
		if x.r == r {
			return i + 1
		}
	}
	return 0
}

// restoreCaptured: the captured variables of the function literal being verified are cells that
// only this literal and its siblings assign; a callee's havoc-all leaves them unchanged
// (assumption, listed in the evidence).
func (fr *Frame) restoreCaptured(pre, st *State) {
	c := fr.c
	top := c.top
	if top == nil {
		return
	}
	// locals of the verified function that live on the heap only because function literals of this
	// very function capture them, and that none of those literals assigns: a callee's havoc-all
	// leaves them unchanged
	if fr == top {
		for _, b := range top.fn.Blocks {
			for _, in := range b.Instrs {
				a, ok := in.(*ssa.Alloc)
				if !ok || !a.Heap || a.Comment == "" || !top.allocAt[a] || !capturedReadOnly(a) {
					continue
				}
				pv := top.vals[a]
				if pv == nil {
					continue
				}
				func() {
					defer func() { recover() }()
					et := derefType(a.Type())
					old := Heap{st: pre}.loadDeref(pv.X, et)
					Heap{st: st, log: curLog}.storeDeref(pv.X, et, old)
				}()
				c.trusted["locals captured (and never assigned) by function literals of the verified function are not assigned by its callees"] = true
			}
		}
	}
	if top.fn.Parent() == nil {
		return
	}
	for _, fv := range top.fn.FreeVars {
		pv := top.vals[fv]
		pt, ok := fv.Type().Underlying().(*types.Pointer)
		if pv == nil || !ok {
			continue
		}
		func() {
			defer func() { recover() }()
			old := Heap{st: pre}.loadDeref(pv.X, pt.Elem())
			Heap{st: st, log: curLog}.storeDeref(pv.X, pt.Elem(), old)
		}()
	}
	c.trusted["captured variables of the verified function literal are not assigned by its callees"] = true
}

// restorePrivate: locations declared `private` in the contract of the function being verified
// (typically the backing array of a table detached from a shared structure) are not reachable by
// anybody else, so a callee's havoc-all leaves them unchanged (assumption, listed in the evidence).
func (fr *Frame) restorePrivate(pre, st *State) {
	c := fr.c
	top := c.top
	if top == nil || top.contract == nil || len(top.contract.Private) == 0 || fr != top {
		return
	}
	env := top.envAt(pre)
	for _, pe := range top.contract.Private {
		locs, err := env.evalLocs(pe)
		if err != nil {
			continue // e.g. the local holding the private copy is not yet defined on this path
		}
		for _, loc := range locs {
			if loc.ref == nil || loc.mapName == "*" {
				continue
			}
			cur := st.hget(loc.mapName, loc.sort)
			old := pre.hget(loc.mapName, loc.sort)
			st.hset(loc.mapName, Store(cur, loc.ref, Select(old, loc.ref)))
		}
		c.trusted["private location (no other reference exists; unchanged by callees): "+pe.String()+" in "+shortFn(top.fn.RelString(nil))] = true
	}
}

// capturedReadOnly: the heap-allocated local a is referenced only by loads, by stores of this
// function into it, and by closures of this function that never store to it.
func capturedReadOnly(a *ssa.Alloc) bool {
	refs := a.Referrers()
	if refs == nil {
		return false
	}
	for _, r := range *refs {
		switch x := r.(type) {
		case *ssa.UnOp, *ssa.DebugRef:
		case *ssa.Store:
			if x.Val == ssa.Value(a) {
				return false // the address itself is stored somewhere
			}
		case *ssa.MakeClosure:
			fn, ok := x.Fn.(*ssa.Function)
			if !ok {
				return false
			}
			for i, bnd := range x.Bindings {
				if bnd != ssa.Value(a) || i >= len(fn.FreeVars) {
					continue
				}
				fv := fn.FreeVars[i]
				if frefs := fv.Referrers(); frefs != nil {
					for _, fr2 := range *frefs {
						switch y := fr2.(type) {
						case *ssa.UnOp, *ssa.DebugRef:
						case *ssa.Store:
							_ = y
							return false
						default:
							return false // passed on (nested closure, call argument, address arithmetic)
						}
					}
				}
			}
		default:
			return false
		}
	}
	return true
}
