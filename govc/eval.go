package main

// Evaluation of contract expressions into symbolic values.

import (
	"fmt"
	"go/constant"
	"go/types"
	"math/big"
	"strings"

	"golang.org/x/tools/go/ssa"
)

type Env struct {
	c         *FnCtx
	cur       *State
	old       *State
	vars      map[string]*Val
	pkg       *types.Package // scope for constants, type names and imports
	frame     *Frame         // for local variables by name (loop invariants); may be nil
	log       *[]writeRec
	snapBase  *State          // state whose lock snapshots are used (nested at_lock inside at_unlock)
	cellState *State          // state used for local variables (at_lock/at_unlock keep current locals)
	oldVars   map[string]*Val // parameter entry values, used inside old() and as a fallback in body mode
}

func (e *Env) with(vars map[string]*Val) *Env {
	n := *e
	n.vars = map[string]*Val{}
	for k, v := range e.vars {
		n.vars[k] = v
	}
	for k, v := range vars {
		n.vars[k] = v
	}
	return &n
}

func (e *Env) inOld() *Env {
	n := *e
	if e.old != nil {
		n.cur = e.old
	}
	if e.oldVars != nil {
		n.vars = map[string]*Val{}
		for k, v := range e.oldVars {
			n.vars[k] = v
		}
		for k, v := range e.vars {
			n.vars[k] = v
		}
		n.frame = nil
	}
	return &n
}

type evalError struct{ msg string }

func (e evalError) Error() string { return e.msg }

func efail(f string, a ...interface{}) { panic(evalError{fmt.Sprintf(f, a...)}) }

func (env *Env) heap() Heap { return Heap{st: env.cur} }

func (env *Env) boolTerm(e *Expr) *Term {
	v := env.eval(e)
	if v.K != VScalar || v.X.S != SBool {
		efail("expected a boolean: %s", e)
	}
	return v.X
}

func (env *Env) intTerm(e *Expr) *Term {
	v := env.eval(e)
	if v.K != VScalar || v.X.S != SInt {
		efail("expected an integer: %s (got %v)", e, v)
	}
	return v.X
}

// identity of a value for ghost fields
func identity(v *Val) *Term {
	switch v.K {
	case VIface:
		return v.Box
	case VSlice:
		return v.Ref
	case VScalar:
		if v.Addr != nil {
			return addrTerm(v.Addr)
		}
		if v.X.S == SInt {
			return v.X
		}
	}
	efail("value %v has no identity for ghost fields", v)
	return nil
}

func (env *Env) lookupPkg(name string) *types.Package {
	if env.pkg == nil {
		return nil
	}
	for _, imp := range env.pkg.Imports() {
		if imp.Name() == name {
			return imp
		}
	}
	// any loaded package by name (trusted specs may mention packages the file's package does not import)
	if p := env.c.eng.pkgByName[name]; p != nil {
		return p
	}
	return nil
}

func constVal(c *types.Const) *Val {
	v := c.Val()
	switch v.Kind() {
	case constant.Int:
		n, _ := new(big.Int).SetString(v.ExactString(), 10)
		return scalar(c.Type(), NumBig(n))
	case constant.Bool:
		return scalar(c.Type(), BoolT(constant.BoolVal(v)))
	case constant.String:
		return scalar(c.Type(), strLit(constant.StringVal(v)))
	}
	efail("unsupported constant %s", c.Name())
	return nil
}

func (env *Env) lookupObj(pkg *types.Package, name string) *Val {
	obj := pkg.Scope().Lookup(name)
	if obj == nil {
		return nil
	}
	switch o := obj.(type) {
	case *types.Const:
		return constVal(o)
	case *types.Var:
		// package-level variable
		sp := env.c.eng.prog.Package(pkg)
		if sp == nil {
			efail("package %s not built", pkg.Path())
		}
		g, _ := sp.Members[name].(*ssa.Global)
		if g == nil {
			efail("no global %s.%s", pkg.Path(), name)
		}
		return env.c.loadGlobal(env.cur, g)
	}
	return nil
}

func (env *Env) eval(e *Expr) *Val {
	switch e.Kind {
	case ENum:
		return mathInt(NumBig(e.Num))
	case EStr:
		return scalar(types.Typ[types.String], strLit(e.Str))
	case EBool:
		return mathBool(BoolT(e.Name == "true"))
	case ENil:
		return &Val{K: VScalar, X: Num(0)}
	case EIdent:
		if v, ok := env.vars[e.Name]; ok {
			return v
		}
		if env.frame != nil {
			cs := env.cur
			if env.cellState != nil {
				cs = env.cellState
			}
			if v := env.frame.localByName(cs, e.Name); v != nil {
				return v
			}
		}
		if env.oldVars != nil {
			if v, ok := env.oldVars[e.Name]; ok {
				return v
			}
		}
		if n, ok := env.c.eng.consts[e.Name]; ok {
			return mathInt(NumBig(n))
		}
		if env.pkg != nil {
			if v := env.lookupObj(env.pkg, e.Name); v != nil {
				return v
			}
		}
		efail("unknown identifier %q", e.Name)
	case ESel:
		// package-qualified name?
		if e.Args[0].Kind == EIdent {
			_, isOld := env.oldVars[e.Args[0].Name]
			if _, isVar := env.vars[e.Args[0].Name]; !isVar && !isOld {
				if env.frame == nil || env.frame.localByName(env.cur, e.Args[0].Name) == nil {
					if p := env.lookupPkg(e.Args[0].Name); p != nil {
						if v := env.lookupObj(p, e.Name); v != nil {
							return v
						}
						efail("unknown %s.%s", e.Args[0].Name, e.Name)
					}
				}
			}
		}
		base := env.eval(e.Args[0])
		return env.selectField(base, e.Name)
	case EDeref:
		p := env.eval(e.Args[0])
		return env.c.load(env.cur, p)
	case EIndex:
		base := env.eval(e.Args[0])
		idx := env.eval(e.Args[1])
		return env.index(base, idx)
	case EUnary:
		switch e.Op {
		case "!":
			return mathBool(Not(env.boolTerm(e.Args[0])))
		case "-":
			return mathInt(Neg(env.intTerm(e.Args[0])))
		}
	case ECond:
		c := env.boolTerm(e.Args[0])
		return iteVal(c, env.eval(e.Args[1]), env.eval(e.Args[2]))
	case EBin:
		return env.evalBin(e)
	case ECall:
		return env.evalCall(e)
	case EQuant:
		return env.evalQuant(e)
	}
	efail("cannot evaluate %s", e)
	return nil
}

func derefType(t types.Type) types.Type {
	if t == nil {
		return nil
	}
	if p, ok := t.Underlying().(*types.Pointer); ok {
		return p.Elem()
	}
	return t
}

func findField(t types.Type, name string) (int, bool) {
	st, ok := t.Underlying().(*types.Struct)
	if !ok {
		return 0, false
	}
	for i := 0; i < st.NumFields(); i++ {
		if st.Field(i).Name() == name {
			return i, true
		}
	}
	return 0, false
}

func (env *Env) selectField(base *Val, name string) *Val {
	// real field?
	if base.T != nil {
		if base.K == VStruct {
			if i, ok := findField(base.T, name); ok {
				return base.Fs[i]
			}
			// promoted through embedded struct values
			st := base.T.Underlying().(*types.Struct)
			for i := 0; i < st.NumFields(); i++ {
				if st.Field(i).Embedded() && base.Fs[i].K == VStruct {
					if j, ok := findField(base.Fs[i].T, name); ok {
						return base.Fs[i].Fs[j]
					}
				}
			}
		} else if pt, ok := base.T.Underlying().(*types.Pointer); ok {
			if i, ok := findField(pt.Elem(), name); ok {
				a := env.c.fieldAddr(base, pt.Elem(), i)
				ft := pt.Elem().Underlying().(*types.Struct).Field(i).Type()
				if _, isStruct := ft.Underlying().(*types.Struct); isStruct && !isOpaque(ft) && a.Kind != ACell {
					// embedded struct: its address (gives field access and an identity for ghost fields)
					return ptrVal(types.NewPointer(ft), a)
				}
				return env.c.loadAddr(env.cur, a, ft)
			}
			// promoted fields through embedded structs (one level)
			if st, ok := pt.Elem().Underlying().(*types.Struct); ok {
				for i := 0; i < st.NumFields(); i++ {
					if st.Field(i).Embedded() {
						if j, ok := findField(st.Field(i).Type(), name); ok {
							inner := env.c.fieldAddr(base, pt.Elem(), i)
							pv := &Val{K: VScalar, T: types.NewPointer(st.Field(i).Type()), X: addrTerm(inner), Addr: inner}
							a := env.c.fieldAddr(pv, st.Field(i).Type(), j)
							return env.c.loadAddr(env.cur, a, st.Field(i).Type().Underlying().(*types.Struct).Field(j).Type())
						}
					}
				}
			}
		}
	}
	if gf, ok := env.c.eng.ghostFields[name]; ok {
		return env.heap().loadGhost(identity(base), gf)
	}
	efail("no field or ghost field %q on value of type %v", name, base.T)
	return nil
}

func elemTypeOf(t types.Type) types.Type {
	switch u := t.Underlying().(type) {
	case *types.Slice:
		return u.Elem()
	case *types.Array:
		return u.Elem()
	case *types.Pointer:
		if a, ok := u.Elem().Underlying().(*types.Array); ok {
			return a.Elem()
		}
	}
	return nil
}

func (env *Env) index(base, idx *Val) *Val {
	switch base.K {
	case VArr:
		x := Select(base.X, idx.X)
		return &Val{K: VScalar, X: x}
	case VSlice:
		et := elemTypeOf(base.T)
		return env.heap().loadElem(base.Ref, Add(base.Off, idx.X), et)
	case VScalar:
		if base.T != nil {
			if isStringType(base.T) {
				return mathInt(SAt(base.X, idx.X))
			}
			if mt, ok := base.T.Underlying().(*types.Map); ok {
				return env.c.mapGet(env.cur, base.X, mt, idx)
			}
		}
	}
	efail("cannot index %v", base)
	return nil
}

func (env *Env) evalBin(e *Expr) *Val {
	switch e.Op {
	case "&&":
		return mathBool(And(env.boolTerm(e.Args[0]), env.boolTerm(e.Args[1])))
	case "||":
		return mathBool(Or(env.boolTerm(e.Args[0]), env.boolTerm(e.Args[1])))
	case "==>":
		return mathBool(Implies(env.boolTerm(e.Args[0]), env.boolTerm(e.Args[1])))
	case "<==>":
		return mathBool(Iff(env.boolTerm(e.Args[0]), env.boolTerm(e.Args[1])))
	case "==", "!=":
		a := env.eval(e.Args[0])
		b := env.eval(e.Args[1])
		var t *Term
		switch {
		case e.Args[1].Kind == ENil:
			t = isNil(a)
		case e.Args[0].Kind == ENil:
			t = isNil(b)
		default:
			t = eqVal(a, b)
		}
		if e.Op == "!=" {
			t = Not(t)
		}
		return mathBool(t)
	}
	if e.Op == "+" {
		// string concatenation
		av, bv := env.eval(e.Args[0]), env.eval(e.Args[1])
		if av.T != nil && bv.T != nil && isStringType(av.T) && isStringType(bv.T) {
			return scalar(av.T, SCat(av.X, bv.X))
		}
	}
	a := env.intTerm(e.Args[0])
	b := env.intTerm(e.Args[1])
	switch e.Op {
	case "<":
		return mathBool(Lt(a, b))
	case "<=":
		return mathBool(Le(a, b))
	case ">":
		return mathBool(Gt(a, b))
	case ">=":
		return mathBool(Ge(a, b))
	case "+":
		return mathInt(Add(a, b))
	case "-":
		return mathInt(Sub(a, b))
	case "*":
		return mathInt(Mul(a, b))
	case "/":
		return mathInt(Div(a, b))
	case "%":
		return mathInt(Mod(a, b))
	}
	efail("unknown operator %s", e.Op)
	return nil
}

func isNil(v *Val) *Term {
	switch v.K {
	case VIface:
		return Eq(v.Tag, Num(0))
	case VSlice:
		return Eq(v.Ref, Num(0))
	case VScalar:
		if v.Addr != nil && v.Addr.Kind != AObj {
			return False
		}
		return Eq(v.X, Num(0))
	}
	efail("nil comparison on %v", v)
	return nil
}

var convTypes = map[string]types.Type{
	"int": types.Typ[types.Int], "int8": types.Typ[types.Int8], "int16": types.Typ[types.Int16],
	"int32": types.Typ[types.Int32], "int64": types.Typ[types.Int64], "uint": types.Typ[types.Uint],
	"uint8": types.Typ[types.Uint8], "byte": types.Typ[types.Uint8], "uint16": types.Typ[types.Uint16],
	"uint32": types.Typ[types.Uint32], "uint64": types.Typ[types.Uint64],
}

func (env *Env) evalCall(e *Expr) *Val {
	switch e.Name {
	case "old":
		return env.inOld().eval(e.Args[0])
	case "at_lock", "at_unlock": // state right after the most recent acquisition / right before the most recent release
		base := env.cur
		if env.snapBase != nil {
			base = env.snapBase
		}
		snap := base.snaps["lock"]
		if e.Name == "at_unlock" {
			snap = base.snaps["unlock"]
		}
		if snap == nil {
			efail("%s() used but no lock was acquired/released on this path", e.Name)
		}
		n := *env
		n.cur = snap
		n.snapBase = base
		if n.cellState == nil {
			n.cellState = env.cur
		}
		return n.eval(e.Args[0])
	case "len":
		v := env.eval(e.Args[0])
		switch v.K {
		case VSlice:
			return mathInt(v.Len)
		case VScalar:
			if v.T != nil && isStringType(v.T) {
				return mathInt(SLen(v.X))
			}
			if v.T != nil {
				if _, ok := v.T.Underlying().(*types.Map); ok {
					return mathInt(Select(env.cur.hget("m:len", SArr(SInt, SInt)), v.X))
				}
			}
		}
		efail("len of %v", v)
	case "cap":
		v := env.eval(e.Args[0])
		if v.K == VSlice {
			return mathInt(v.Cap)
		}
		efail("cap of %v", v)
	case "has": // has(m, k): key present in map
		m := env.eval(e.Args[0])
		k := env.eval(e.Args[1])
		mt, ok := m.T.Underlying().(*types.Map)
		if !ok {
			efail("has() on non-map")
		}
		return mathBool(And(Neq(m.X, Num(0)), env.c.mapHas(env.cur, m.X, mt, k))) // a nil map has no entries
	case "fresh": // fresh(x): x was allocated during this call
		v := env.eval(e.Args[0])
		if env.old == nil {
			efail("fresh() outside a postcondition")
		}
		id := identity(v)
		return mathBool(And(Ge(id, env.old.ac), Lt(id, env.cur.ac)))
	case "allocated":
		v := env.eval(e.Args[0])
		id := identity(v)
		return mathBool(Lt(id, env.cur.ac))
	case "typeis": // typeis(x, T): dynamic type of interface value x is T (a type name)
		v := env.eval(e.Args[0])
		t := env.resolveType(e.Args[1])
		if v.K != VIface {
			efail("typeis on non-interface")
		}
		return mathBool(Eq(v.Tag, typeTag(t)))
	case "unbox": // unbox(x, T): the value held by interface x, viewed as T
		v := env.eval(e.Args[0])
		t := env.resolveType(e.Args[1])
		return env.c.unbox(env.cur, v, t)
	case "oldarrays_unchanged":
		// oldarrays_unchanged(s): every backing array of s's element type that existed at function
		// entry still has its entry contents (loop frame for code that only writes to arrays
		// allocated during the call)
		v := env.eval(e.Args[0])
		if v.K != VSlice || env.old == nil {
			efail("oldarrays_unchanged needs a slice and an entry state")
		}
		et := elemTypeOf(v.T)
		var cs []*Term
		x := BVar("x", SInt)
		for _, cp := range comps(et) {
			name := arrMapName(et, cp.suffix)
			srt := SArr(SInt, SArr(SInt, cp.sort))
			cur := env.cur.hget(name, srt)
			old := env.old.hget(name, srt)
			cs = append(cs, Forall([]*Term{x}, [][]*Term{{Select(cur, x)}}, Implies(Lt(x, env.old.ac), Eq(Select(cur, x), Select(old, x)))))
		}
		return mathBool(And(cs...))
	case "string": // string(x): view a ghost integer (e.g. the content of a String-kind reflect value) as a string id
		if len(e.Args) == 1 {
			return scalar(types.Typ[types.String], env.intTerm(e.Args[0]))
		}
	case "iterfresh": // iterfresh(x): x was allocated during the current iteration of the innermost enclosing loop
		if env.frame == nil || env.frame.curBlock == nil {
			efail("iterfresh is only available in clauses inside a loop body")
		}
		var best *ssa.BasicBlock
		for h, blocks := range env.frame.cfg.loopOf {
			if blocks[env.frame.curBlock] && env.frame.loopAc[h] != nil {
				if best == nil || len(blocks) < len(env.frame.cfg.loopOf[best]) {
					best = h
				}
			}
		}
		if best == nil {
			if env.c.dry > 0 {
				return mathBool(True) // dry run of a loop body (computing its write set): no obligations are generated
			}
			efail("iterfresh used outside a loop")
		}
		v := env.eval(e.Args[0])
		return mathBool(Le(env.frame.loopAc[best], identity(v)))
	case "tagof": // dynamic type tag of an interface value, as an integer (0 for nil)
		v := env.eval(e.Args[0])
		if v.K != VIface {
			efail("tagof on non-interface")
		}
		return mathInt(v.Tag)
	case "ref": // identity of a value as an integer
		return mathInt(identity(env.eval(e.Args[0])))
	case "sameslice": // same backing array, offset, len
		a, b := env.eval(e.Args[0]), env.eval(e.Args[1])
		return mathBool(And(Eq(a.Ref, b.Ref), Eq(a.Off, b.Off), Eq(a.Len, b.Len)))
	case "ite":
		return iteVal(env.boolTerm(e.Args[0]), env.eval(e.Args[1]), env.eval(e.Args[2]))
	}
	if strings.HasPrefix(e.Name, "visited#") && len(e.Args) == 1 {
		// visited#n(k): key k has been yielded by the n-th map range loop of this function
		if env.frame == nil {
			efail("%s is only available in loop invariants", e.Name)
		}
		k := env.eval(e.Args[0])
		key := "v:" + env.frame.fn.Name() + ".visited#" + strings.TrimPrefix(e.Name, "visited#")
		return mathBool(Select(env.cur.hget(key, SArr(SInt, SBool)), mapKeyTerm(k)))
	}
	if t, ok := convTypes[e.Name]; ok && len(e.Args) == 1 {
		x := env.intTerm(e.Args[0])
		bits, signed, _ := intInfo(t)
		return scalar(t, wrap(x, bits, signed))
	}
	if sf, ok := env.c.eng.specs[e.Name]; ok {
		if len(sf.Params) != len(e.Args) {
			efail("spec %s: wrong number of arguments", e.Name)
		}
		args := make([]*Val, len(e.Args))
		for i, a := range e.Args {
			args[i] = env.eval(a)
		}
		if sf.Body != nil {
			vars := map[string]*Val{}
			for i, p := range sf.Params {
				vars[p.Name] = args[i]
			}
			n := *env
			n.vars = vars
			n.frame = nil
			return n.eval(sf.Body)
		}
		var ts []*Term
		for _, a := range args {
			ts = append(ts, flatten(a)...)
		}
		ret := SInt
		switch sf.RetType {
		case "bool":
			ret = SBool
		case "[int]int":
			ret = SArr(SInt, SInt)
		}
		x := App("spec."+sf.Name, ret, ts...)
		if ret.IsArr() {
			return &Val{K: VArr, X: x}
		}
		rv := &Val{K: VScalar, X: x}
		if sf.RetType != "" && sf.RetType != "int" && sf.RetType != "bool" {
			// typed result (e.g. a reflect.Value token or a string): resolve for later field access
			if te, err := ParseExpr(sf.RetType); err == nil {
				func() {
					defer func() { recover() }()
					rv.T = env.resolveType(te)
				}()
			}
		}
		return rv
	}
	efail("unknown function %q in contract expression", e.Name)
	return nil
}

func (env *Env) resolveType(e *Expr) types.Type {
	name := ""
	ptr := false
	x := e
	if x.Kind == EDeref {
		ptr = true
		x = x.Args[0]
	}
	var obj types.Object
	switch x.Kind {
	case EIdent:
		name = x.Name
		var bt types.Type
		if t, ok := convTypes[name]; ok {
			bt = t
		}
		switch name {
		case "string":
			bt = types.Typ[types.String]
		case "bool":
			bt = types.Typ[types.Bool]
		case "float32":
			bt = types.Typ[types.Float32]
		case "float64":
			bt = types.Typ[types.Float64]
		}
		if bt != nil {
			if ptr {
				return types.NewPointer(bt)
			}
			return bt
		}
		if env.pkg != nil {
			obj = env.pkg.Scope().Lookup(name)
		}
	case ESel:
		if x.Args[0].Kind == EIdent {
			if p := env.lookupPkg(x.Args[0].Name); p != nil {
				obj = p.Scope().Lookup(x.Name)
			}
		}
	}
	tn, ok := obj.(*types.TypeName)
	if !ok {
		efail("unknown type %s", e)
	}
	if ptr {
		return types.NewPointer(tn.Type())
	}
	return tn.Type()
}

func (env *Env) evalQuant(e *Expr) *Val {
	vars := map[string]*Val{}
	var bvs []*Term
	for _, qv := range e.Vars {
		srt := SInt
		if qv.Type == "bool" {
			srt = SBool
		}
		b := BVar(qv.Name, srt)
		bvs = append(bvs, b)
		v := &Val{K: VScalar, X: b}
		if qv.Type != "int" && qv.Type != "bool" {
			// typed bound variable (e.g. a pointer type or string): resolve for field access
			if te, err := ParseExpr(qv.Type); err == nil {
				func() {
					defer func() { recover() }()
					v.T = env.resolveType(te)
				}()
			}
		}
		vars[qv.Name] = v
	}
	n := env.with(vars)
	body := n.boolTerm(e.Args[0])
	var pats [][]*Term
	for _, p := range e.Trig {
		if len(p) == 1 {
			// a composite (struct / slice / interface) trigger expression: one alternative pattern per
			// component, so that a read of any single field fires the quantifier
			v := n.eval(p[0])
			for _, t := range flatten(v) {
				pats = append(pats, []*Term{cleanPattern(t)})
			}
			continue
		}
		var pt []*Term
		for _, x := range p {
			v := n.eval(x)
			fl := flatten(v)
			if len(fl) > 0 {
				pt = append(pt, cleanPattern(fl[0]))
			}
		}
		pats = append(pats, pt)
	}
	// Trigger normalisation: a pattern select(A, b + rest) becomes select(A, b') with b := b' - rest
	// throughout, so that E-matching sees a bare bound variable as the index.
	for vi, b := range bvs {
		if b.S != SInt {
			continue
		}
		for _, p := range pats {
			if len(p) == 0 || p[0].Op != "select" {
				continue
			}
			idx := p[0].Args[1]
			if idx == b {
				break
			}
			cf, rest := linSplit(idx, b)
			if cf.Cmp(big.NewInt(1)) != 0 {
				continue
			}
			mentions := false
			for _, ob := range bvs {
				if ob != b && maxContains(rest, ob) {
					mentions = true
				}
			}
			if mentions {
				continue
			}
			nb := BVar(e.Vars[vi].Name, SInt)
			m := map[*Term]*Term{b: Sub(nb, rest)}
			body = Subst(body, m)
			for pi := range pats {
				for xi := range pats[pi] {
					pats[pi][xi] = Subst(pats[pi][xi], m)
				}
			}
			bvs[vi] = nb
			break
		}
	}
	if e.Op == "forall" {
		return mathBool(Forall(bvs, pats, body))
	}
	return mathBool(Exists(bvs, pats, body))
}

// evalClause evaluates a boolean clause, converting evaluation failures into errors.
func (env *Env) evalClause(e *Expr) (t *Term, err error) {
	defer func() {
		if r := recover(); r != nil {
			if ee, ok := r.(evalError); ok {
				err = fmt.Errorf("%s: %s", e, ee.msg)
				return
			}
			panic(r)
		}
	}()
	return env.boolTerm(e), nil
}

// ---- locations (modifies clauses)

type Loc struct {
	mapName string
	ref     *Term // nil: whole map
	sort    *Sort
}

// evalLocs expands a modifies expression into heap-map locations.
func (env *Env) evalLocs(e *Expr) (locs []Loc, err error) {
	defer func() {
		if r := recover(); r != nil {
			if ee, ok := r.(evalError); ok {
				err = fmt.Errorf("modifies %s: %s", e, ee.msg)
				return
			}
			panic(r)
		}
	}()
	switch e.Kind {
	case EDeref: // *p : everything p points to
		p := env.eval(e.Args[0])
		return env.objLocs(p), nil
	case ESel:
		base := env.eval(e.Args[0])
		if e.Name == "*" {
			if base.K == VIface || base.T == nil {
				return env.ghostLocs(identity(base)), nil
			}
			if _, ok := base.T.Underlying().(*types.Pointer); ok {
				ls := env.objLocs(base)
				ls = append(ls, env.ghostLocs(identity(base))...)
				return ls, nil
			}
			return env.ghostLocs(identity(base)), nil
		}
		if base.T != nil {
			if pt, ok := base.T.Underlying().(*types.Pointer); ok {
				if i, ok := findField(pt.Elem(), e.Name); ok {
					return env.fieldLocs(addrTermOfPtr(base), pt.Elem(), i), nil
				}
			}
		}
		if gf, ok := env.c.eng.ghostFields[e.Name]; ok {
			return []Loc{{ghostMapName(gf.Name), identity(base), SArr(SInt, ghostSort(gf.Type))}}, nil
		}
		efail("unknown location field %q", e.Name)
	case EIndex:
		base := env.eval(e.Args[0])
		if base.K == VSlice {
			et := elemTypeOf(base.T)
			for _, c := range comps(et) {
				locs = append(locs, Loc{arrMapName(et, c.suffix), base.Ref, SArr(SInt, SArr(SInt, c.sort))})
			}
			return locs, nil
		}
		if base.T != nil {
			if mt, ok := base.T.Underlying().(*types.Map); ok {
				has, vals, ln := mapNames(mt)
				locs = append(locs, Loc{has, base.X, SArr(SInt, SArr(SInt, SBool))})
				for i, c := range comps(mt.Elem()) {
					locs = append(locs, Loc{vals[i], base.X, SArr(SInt, SArr(SInt, c.sort))})
				}
				locs = append(locs, Loc{ln, base.X, SArr(SInt, SInt)})
				return locs, nil
			}
		}
		efail("cannot take [*] of %v", base)
	case EIdent:
		if e.Name == "everything" {
			return []Loc{{"*", nil, nil}}, nil
		}
	case ECall:
		// allof(g): ghost field g of every object (the callee states its own frame for g in an
		// ensures clause, which is then an obligation on its body like any other)
		if e.Name == "allof" && len(e.Args) == 1 && e.Args[0].Kind == EIdent {
			if gf, ok := env.c.eng.ghostFields[e.Args[0].Name]; ok {
				return []Loc{{ghostMapName(gf.Name), nil, SArr(SInt, ghostSort(gf.Type))}}, nil
			}
			efail("allof: unknown ghost field %q", e.Args[0].Name)
		}
	}
	efail("unsupported location expression")
	return nil, nil
}

func addrTermOfPtr(p *Val) *Term {
	if p.Addr != nil {
		return addrTerm(p.Addr)
	}
	return p.X
}

func (env *Env) ghostLocs(id *Term) []Loc {
	var out []Loc
	for _, name := range env.c.eng.ghostOrder {
		gf := env.c.eng.ghostFields[name]
		if counterGhosts[ghostMapName(gf.Name)] {
			continue // x.* does not cover counter ghosts: those change only when listed by name
		}
		out = append(out, Loc{ghostMapName(gf.Name), id, SArr(SInt, ghostSort(gf.Type))})
	}
	return out
}

func (env *Env) fieldLocs(ref *Term, structT types.Type, idx int) []Loc {
	st := structT.Underlying().(*types.Struct)
	f := st.Field(idx)
	if _, ok := f.Type().Underlying().(*types.Struct); ok {
		return env.structLocs(SubRef(ref, idx), f.Type())
	}
	var out []Loc
	for _, c := range comps(f.Type()) {
		out = append(out, Loc{fieldMapName(structKey(structT), f, c.suffix), ref, SArr(SInt, c.sort)})
	}
	return out
}

func (env *Env) structLocs(ref *Term, t types.Type) []Loc {
	st := t.Underlying().(*types.Struct)
	var out []Loc
	for i := 0; i < st.NumFields(); i++ {
		out = append(out, env.fieldLocs(ref, t, i)...)
	}
	return out
}

func (env *Env) objLocs(p *Val) []Loc {
	pt, ok := p.T.Underlying().(*types.Pointer)
	if !ok {
		efail("*x location needs a pointer")
	}
	ref := addrTermOfPtr(p)
	if _, ok := pt.Elem().Underlying().(*types.Struct); ok {
		return env.structLocs(ref, pt.Elem())
	}
	var out []Loc
	for _, c := range comps(pt.Elem()) {
		out = append(out, Loc{derefMapName(pt.Elem(), c.suffix), ref, SArr(SInt, c.sort)})
	}
	return out
}

func describeLocs(ls []Loc) string {
	var s []string
	for _, l := range ls {
		if l.ref == nil {
			s = append(s, l.mapName+"[*]")
		} else {
			s = append(s, l.mapName+"["+l.ref.String()+"]")
		}
	}
	return strings.Join(s, ", ")
}

func maxContains(t, x *Term) bool {
	if t == x {
		return true
	}
	for _, a := range t.Args {
		if maxContains(a, x) {
			return true
		}
	}
	return false
}

// cleanPattern: triggers must be function applications; a boolean combination such as the one
// produced by has(m,k) is reduced to the array read it contains.
func cleanPattern(t *Term) *Term {
	switch t.Op {
	case "not":
		return cleanPattern(t.Args[0])
	case "and", "or", "=>", "=":
		for i := len(t.Args) - 1; i >= 0; i-- {
			c := cleanPattern(t.Args[i])
			if c.Op == "select" || c.Op == "app" {
				return c
			}
		}
	}
	return t
}
