package main

// Symbolic executor over naive-form go/ssa with state merging; generates obligations.

import (
	"fmt"
	"go/constant"
	"go/token"
	"go/types"
	"math/big"
	"sort"
	"strings"

	"golang.org/x/tools/go/ssa"
)

type Obligation struct {
	Name      string
	Fn        string
	Kind      string // ensures requires inv-entry inv-preserved decreases safe frame cover assert lemma monitor lock guard
	Tags      []string
	Text      string
	NFacts    int // number of ctx facts visible
	ctx       *FnCtx
	PC        *Term
	Goal      *Term
	ExpectSat bool
	Extra     []*Term // extra assumptions specific to the obligation
	// results
	Status  string // unsat sat unknown timeout error
	Solver  string
	Secs    float64
	Model   string
	SMTFile string
	relaxed bool   // counterexample search mode: drop quantified assumptions
	noAxiom string // lemma being proved: exclude itself and later lemmas
	Src     string // cover/return: source text of the return statement (dead_paths.json matches on it)
	Support bool   // support obligation (requires/inv/frame/cover/safe) as opposed to a tagged clause
}

type FnCtx struct {
	eng           *Engine
	fn            *ssa.Function
	contract      *Contract
	facts         []*Term
	obls          []*Obligation
	dry           int
	unknown       map[string]bool
	used          map[string]bool // callee contract keys used
	trusted       map[string]bool
	errs          []string
	factSeen      map[int]bool
	ordinals      map[ssa.Instruction]int
	callOrd       map[ssa.Instruction]string
	top           *Frame
	ghostVals     map[string]*Val
	notes         []string
	inlined       map[string]bool
	readonlyExt   map[string]bool
	counterWrites map[string]string // counter ghost map -> who writes it (callee contract / ghost assignment)
	guardOrd      map[string]map[ssa.Instruction]int
	acquired      []acquiredMutex // mutexes acquired by the function under verification (blockingCheck)
	unlockSnap    *State
	lockSnap      *State // state right after the most recent lock acquisition (at_lock)
	preEnv        *Env   // contract environment at function entry (replay)
	postEnv       *Env   // contract environment at the merged exit (replay)
}

type exitRec struct {
	st      *State
	results []*Val
}

type loopCut struct {
	spec     *LoopSpec
	variant  *Term
	progress []*Term
	ordinal  int
	header   *ssa.BasicBlock
	entryOld *State
}

type Frame struct {
	loopAc      map[*ssa.BasicBlock]*Term // loop header -> allocation counter at the head of the iteration being executed
	curBlock    *ssa.BasicBlock           // block being executed (scope of name resolution for body-level clauses)
	c           *FnCtx
	fn          *ssa.Function
	vals        map[ssa.Value]*Val
	isCell      map[*ssa.Alloc]bool
	exits       []exitRec
	prefix      string
	depth       int
	cfg         *cfgInfo
	cuts        map[*ssa.BasicBlock]*loopCut
	entry       *State          // state at function entry (for old())
	vars        map[string]*Val // contract variables: params (entry values), receiver, ghost params
	allocAt     map[*ssa.Alloc]bool
	contract    *Contract
	rangeMaps   map[*ssa.Range]*Val
	doneClauses map[ssa.Instruction]bool
	fnConsts    map[string]*ssa.Function // function constants seen (candidates for dynamic calls)
}

func (c *FnCtx) errorf(f string, a ...interface{}) {
	msg := fmt.Sprintf(f, a...)
	for _, e := range c.errs {
		if e == msg {
			return
		}
	}
	c.errs = append(c.errs, msg)
}

var openMemo = map[*Term]bool{}

// isOpen: the term mentions a bound variable outside its binder (such facts, produced while
// evaluating quantifier bodies, cannot be asserted globally and are dropped).
func isOpen(t *Term) bool {
	if v, ok := openMemo[t]; ok {
		return v
	}
	var free func(t *Term, bound map[*Term]bool) bool
	free = func(t *Term, bound map[*Term]bool) bool {
		if t.Op == "bvar" {
			return !bound[t]
		}
		if len(t.Bvs) > 0 {
			nb := map[*Term]bool{}
			for k := range bound {
				nb[k] = true
			}
			for _, b := range t.Bvs {
				nb[b] = true
			}
			bound = nb
		}
		for _, a := range t.Args {
			if free(a, bound) {
				return true
			}
		}
		return false
	}
	r := free(t, map[*Term]bool{})
	openMemo[t] = r
	return r
}

func (c *FnCtx) addFact(st *State, f *Term) {
	if c.dry > 0 || f == True {
		return
	}
	if isOpen(f) {
		return
	}
	if st != nil {
		f = Implies(st.pc, f)
	}
	if c.factSeen[f.id] {
		return
	}
	c.factSeen[f.id] = true
	c.facts = append(c.facts, f)
}

func (c *FnCtx) addDef(f *Term) {
	if c.dry > 0 {
		return
	}
	c.facts = append(c.facts, f)
}

func (c *FnCtx) oblige(fr *Frame, st *State, kind, name string, goal *Term, tags []string, text string, support bool) *Obligation {
	if c.dry > 0 {
		return nil
	}
	if goal == True {
		// trivially true after simplification: still counted, discharged syntactically
	}
	o := &Obligation{Name: fr.prefix + name, Fn: c.fn.RelString(nil), Kind: kind, Tags: tags, Text: text, NFacts: len(c.facts), ctx: c, PC: st.pc, Goal: goal, Support: support}
	c.obls = append(c.obls, o)
	return o
}

// ---- CFG analysis

type cfgInfo struct {
	rpo     []*ssa.BasicBlock
	headers []*ssa.BasicBlock // loop headers in source order
	loopOf  map[*ssa.BasicBlock]map[*ssa.BasicBlock]bool
	ordinal map[*ssa.BasicBlock]int
}

func isBackEdge(from, to *ssa.BasicBlock) bool { return to.Dominates(from) }

func minPos(blocks map[*ssa.BasicBlock]bool) token.Pos {
	var m token.Pos
	for b := range blocks {
		for _, in := range b.Instrs {
			if _, isDbg := in.(*ssa.DebugRef); isDbg {
				continue
			}
			p := in.Pos()
			if p != token.NoPos && (m == token.NoPos || p < m) {
				m = p
			}
		}
	}
	return m
}

func analyzeCFG(fn *ssa.Function) *cfgInfo {
	ci := &cfgInfo{loopOf: map[*ssa.BasicBlock]map[*ssa.BasicBlock]bool{}, ordinal: map[*ssa.BasicBlock]int{}}
	if len(fn.Blocks) == 0 {
		return ci
	}
	seen := map[*ssa.BasicBlock]bool{}
	var post []*ssa.BasicBlock
	var dfs func(b *ssa.BasicBlock)
	dfs = func(b *ssa.BasicBlock) {
		seen[b] = true
		for _, s := range b.Succs {
			if isBackEdge(b, s) {
				continue
			}
			if !seen[s] {
				dfs(s)
			}
		}
		post = append(post, b)
	}
	dfs(fn.Blocks[0])
	for i := len(post) - 1; i >= 0; i-- {
		ci.rpo = append(ci.rpo, post[i])
	}
	for _, b := range ci.rpo {
		for _, s := range b.Succs {
			if isBackEdge(b, s) {
				l := ci.loopOf[s]
				if l == nil {
					l = map[*ssa.BasicBlock]bool{s: true}
					ci.loopOf[s] = l
					ci.headers = append(ci.headers, s)
				}
				// reverse reachability from b up to s
				var stack []*ssa.BasicBlock
				if !l[b] {
					l[b] = true
					stack = append(stack, b)
				}
				for len(stack) > 0 {
					x := stack[len(stack)-1]
					stack = stack[:len(stack)-1]
					for _, p := range x.Preds {
						if !l[p] && seen[p] {
							l[p] = true
							stack = append(stack, p)
						}
					}
				}
			}
		}
	}
	sort.SliceStable(ci.headers, func(i, j int) bool {
		pi, pj := minPos(ci.loopOf[ci.headers[i]]), minPos(ci.loopOf[ci.headers[j]])
		if pi != pj {
			return pi < pj
		}
		return len(ci.loopOf[ci.headers[i]]) > len(ci.loopOf[ci.headers[j]])
	})
	for i, h := range ci.headers {
		ci.ordinal[h] = i + 1
	}
	return ci
}

// ---- ordinals for obligation names

func ordKind(in ssa.Instruction) string {
	switch x := in.(type) {
	case *ssa.IndexAddr, *ssa.Index:
		return "index"
	case *ssa.Slice:
		return "slice"
	case *ssa.MakeSlice, *ssa.MakeMap, *ssa.MakeChan:
		return "make"
	case *ssa.TypeAssert:
		if !x.CommaOk {
			return "typeassert"
		}
	case *ssa.Panic:
		return "panic"
	case *ssa.BinOp:
		if x.Op == token.QUO || x.Op == token.REM {
			return "div"
		}
	case *ssa.FieldAddr, *ssa.UnOp, *ssa.Store:
		return "nil"
	case *ssa.MapUpdate:
		return "mapwrite"
	case *ssa.Send:
		return "send"
	}
	return ""
}

func calleeName(cc *ssa.CallCommon) string {
	if cc.IsInvoke() {
		return cc.Method.Name()
	}
	if f := cc.StaticCallee(); f != nil {
		return f.Name()
	}
	if b, ok := cc.Value.(*ssa.Builtin); ok {
		return b.Name()
	}
	return "dyn"
}

func (c *FnCtx) computeOrdinals(fn *ssa.Function) {
	type item struct {
		in  ssa.Instruction
		pos token.Pos
		seq int
	}
	byKind := map[string][]item{}
	seq := 0
	for _, b := range fn.Blocks {
		for _, in := range b.Instrs {
			seq++
			k := ordKind(in)
			if cc, ok := in.(ssa.CallInstruction); ok {
				k = "call:" + calleeName(cc.Common())
			}
			if _, ok := in.(*ssa.Select); ok {
				// select statements are clause sites too: `call select#n: assert ...` (arg0 / arg1: channel
				// and value of the first send case)
				k = "call:select"
			}
			if k == "" {
				continue
			}
			byKind[k] = append(byKind[k], item{in, in.Pos(), seq})
		}
	}
	for k, items := range byKind {
		sort.SliceStable(items, func(i, j int) bool {
			if items[i].pos != items[j].pos && items[i].pos != token.NoPos && items[j].pos != token.NoPos {
				return items[i].pos < items[j].pos
			}
			return items[i].seq < items[j].seq
		})
		for i, it := range items {
			c.ordinals[it.in] = i + 1
			if strings.HasPrefix(k, "call:") {
				c.callOrd[it.in] = fmt.Sprintf("%s#%d", k[5:], i+1)
			}
		}
	}
}

// ---- addresses

func addrTerm(a *Addr) *Term {
	switch a.Kind {
	case AObj:
		return a.Ref
	case AField:
		return SubRef(a.Ref, a.Idx)
	case AElem:
		return ElemRef(a.Ref, a.IdxT)
	case AGlobal:
		return App("globaddr."+a.Glob.RelString(nil), SInt)
	}
	panic(evalError{"address of a local cell used as a value"})
}

func (c *FnCtx) fieldAddr(base *Val, structT types.Type, idx int) *Addr {
	if base.Addr != nil && base.Addr.Kind == ACell {
		return &Addr{Kind: ACell, Cell: base.Addr.Cell, Path: append(append([]int(nil), base.Addr.Path...), idx)}
	}
	if base.Addr != nil && base.Addr.Kind == AElem {
		// field of a struct element of a slice: element address plus a path
		n := *base.Addr
		n.Path = append(append([]int(nil), base.Addr.Path...), idx)
		return &n
	}
	ref := base.X
	if base.Addr != nil {
		ref = addrTerm(base.Addr)
	}
	return &Addr{Kind: AField, Ref: ref, ST: structT.Underlying().(*types.Struct), STName: structKey(structT), Idx: idx, ET: structT}
}

func ptrVal(t types.Type, a *Addr) *Val {
	v := &Val{K: VScalar, T: t, Addr: a}
	if a.Kind != ACell {
		v.X = addrTerm(a)
	} else {
		v.X = Num(-1)
	}
	return v
}

func getPath(v *Val, path []int) *Val {
	for _, i := range path {
		v = v.Fs[i]
	}
	return v
}

func setPath(v *Val, path []int, nv *Val) *Val {
	if len(path) == 0 {
		return nv
	}
	c := *v
	c.Fs = append([]*Val(nil), v.Fs...)
	c.Fs[path[0]] = setPath(v.Fs[path[0]], path[1:], nv)
	return &c
}

func (c *FnCtx) heapOf(st *State, log *[]writeRec) Heap { return Heap{st: st, log: log} }

var curLog *[]writeRec // active write log (loop dry runs / frame computation)

func (c *FnCtx) loadAddr(st *State, a *Addr, t types.Type) *Val {
	h := Heap{st: st}
	var v *Val
	switch a.Kind {
	case ACell:
		cv, ok := st.cells[a.Cell]
		if !ok {
			cv = zeroVal(derefType(a.Cell.Type()))
		}
		return getPath(cv, a.Path)
	case AObj:
		v = h.loadDeref(a.Ref, t)
	case AField:
		v = h.loadField(a.Ref, a.ET, a.Idx)
		if g := c.fieldGuard(a); g != nil {
			nv := *v
			nv.Guard = g
			v = &nv
		}
	case AElem:
		v = h.loadElem(a.Ref, a.IdxT, a.ET)
		if len(a.Path) > 0 {
			v = getPath(v, a.Path)
		}
	case AGlobal:
		return c.loadGlobal(st, a.Glob)
	}
	c.heapValFacts(st, v)
	return v
}

// heapValFacts: values read from the heap are well-typed and refer to allocated objects.
func (c *FnCtx) heapValFacts(st *State, v *Val) {
	for _, f := range typeInv(v) {
		c.addFact(st, f)
	}
	for _, f := range allocFacts(v, st.ac) {
		c.addFact(st, f)
	}
}

func allocFacts(v *Val, ac *Term) []*Term {
	var out []*Term
	switch v.K {
	case VScalar:
		if v.T == nil || v.Addr != nil {
			return nil
		}
		if isOpaque(v.T) {
			return []*Term{Lt(v.X, ac), Lt(Num(0), v.X)} // tokens are allocated like references
		}
		switch v.T.Underlying().(type) {
		case *types.Pointer, *types.Map, *types.Chan:
			out = append(out, Lt(v.X, ac))
		}
	case VSlice:
		out = append(out, Lt(v.Ref, ac))
	case VIface:
		out = append(out, Lt(v.Box, ac))
	case VStruct, VTuple:
		for _, f := range v.Fs {
			out = append(out, allocFacts(f, ac)...)
		}
	}
	return out
}

func isRefType(t types.Type) bool {
	switch t.Underlying().(type) {
	case *types.Pointer, *types.Map, *types.Chan, *types.Signature:
		return true
	}
	return false
}

func (c *FnCtx) storeAddr(st *State, a *Addr, t types.Type, v *Val) {
	h := Heap{st: st, log: curLog}
	switch a.Kind {
	case ACell:
		cv, ok := st.cells[a.Cell]
		if !ok {
			cv = zeroVal(derefType(a.Cell.Type()))
		}
		st.cells[a.Cell] = setPath(cv, a.Path, v)
	case AObj:
		h.storeDeref(a.Ref, t, v)
	case AField:
		h.storeField(a.Ref, a.ET, a.Idx, v)
	case AElem:
		if len(a.Path) > 0 {
			whole := h.loadElem(a.Ref, a.IdxT, a.ET)
			v = setPath(whole, a.Path, v)
		}
		h.storeElem(a.Ref, a.IdxT, a.ET, v)
	case AGlobal:
		c.storeGlobal(st, a.Glob, v)
	}
}

func (c *FnCtx) load(st *State, p *Val) *Val {
	pt, ok := p.T.Underlying().(*types.Pointer)
	if !ok {
		efail("load through non-pointer %v", p)
	}
	a := p.Addr
	if a == nil {
		a = &Addr{Kind: AObj, Ref: p.X}
	}
	return c.loadAddr(st, a, pt.Elem())
}

func globName(g *ssa.Global, suffix string) string { return "G:" + g.RelString(nil) + suffix }

func isImmutableGlobal(g *ssa.Global) bool {
	t := derefType(g.Type())
	if _, ok := t.Underlying().(*types.Interface); ok {
		n := g.Name()
		return n == "EOF" || strings.HasPrefix(n, "Err") || strings.HasPrefix(n, "err")
	}
	return false
}

var globalIDs = map[string]int64{}

func (c *FnCtx) loadGlobal(st *State, g *ssa.Global) *Val {
	t := derefType(g.Type())
	if isImmutableGlobal(g) {
		k := g.RelString(nil)
		id, ok := globalIDs[k]
		if !ok {
			id = int64(len(globalIDs) + 1)
			globalIDs[k] = id
		}
		tag := Var("G:"+k+"#tag", SInt)
		c.addFact(nil, Neq(tag, Num(0)))
		return &Val{K: VIface, T: t, Tag: tag, Box: Num(-1000 - id)}
	}
	cs := comps(t)
	ts := make([]*Term, len(cs))
	for i, cp := range cs {
		ts[i] = st.hget(globName(g, cp.suffix), cp.sort)
	}
	v, _ := unflatten(t, ts)
	c.heapValFacts(st, v)
	return v
}

func (c *FnCtx) storeGlobal(st *State, g *ssa.Global, v *Val) {
	t := derefType(g.Type())
	cs := comps(t)
	ts := flatten(v)
	for i, cp := range cs {
		st.hset(globName(g, cp.suffix), ts[i])
		if curLog != nil {
			*curLog = append(*curLog, writeRec{globName(g, cp.suffix), nil})
		}
	}
}

// ---- allocation

func (c *FnCtx) newRef(st *State, hint string) *Term {
	r := st.ac
	if !(r.Op == "var" || r.Op == "+") {
		n := Fresh("ac", SInt)
		c.addDef(Eq(n, r))
		r = n
	}
	st.ac = Add(r, Num(1))
	return r
}

// ---- maps

func (c *FnCtx) mapHas(st *State, ref *Term, mt *types.Map, k *Val) *Term {
	has, _, _ := mapNames(mt)
	return Select(Select(st.hget(has, SArr(SInt, SArr(SInt, SBool))), ref), mapKeyTerm(k))
}

func mapKeyTerm(k *Val) *Term {
	switch k.K {
	case VScalar:
		if k.X.S == SBool {
			return Ite(k.X, Num(1), Num(0))
		}
		return k.X
	case VIface:
		return App("ifacekey", SInt, k.Tag, k.Box)
	}
	efail("unsupported map key %v", k)
	return nil
}

func (c *FnCtx) mapGet(st *State, ref *Term, mt *types.Map, k *Val) *Val {
	_, vals, _ := mapNames(mt)
	cs := comps(mt.Elem())
	ts := make([]*Term, len(cs))
	kt := mapKeyTerm(k)
	for i, cp := range cs {
		ts[i] = Select(Select(st.hget(vals[i], SArr(SInt, SArr(SInt, cp.sort))), ref), kt)
	}
	v, _ := unflatten(mt.Elem(), ts)
	return v
}

func (c *FnCtx) mapSet(st *State, ref *Term, mt *types.Map, k *Val, v *Val) {
	has, vals, ln := mapNames(mt)
	kt := mapKeyTerm(k)
	hm := st.hget(has, SArr(SInt, SArr(SInt, SBool)))
	was := Select(Select(hm, ref), kt)
	st.hset(has, Store(hm, ref, Store(Select(hm, ref), kt, True)))
	cs := comps(mt.Elem())
	ts := flatten(v)
	for i, cp := range cs {
		m := st.hget(vals[i], SArr(SInt, SArr(SInt, cp.sort)))
		st.hset(vals[i], Store(m, ref, Store(Select(m, ref), kt, ts[i])))
		if curLog != nil {
			*curLog = append(*curLog, writeRec{vals[i], ref})
		}
	}
	lm := st.hget(ln, SArr(SInt, SInt))
	st.hset(ln, Store(lm, ref, Ite(was, Select(lm, ref), Add(Select(lm, ref), Num(1)))))
	if curLog != nil {
		*curLog = append(*curLog, writeRec{has, ref}, writeRec{ln, ref})
	}
}

func (c *FnCtx) mapDelete(st *State, ref *Term, mt *types.Map, k *Val) {
	has, _, ln := mapNames(mt)
	kt := mapKeyTerm(k)
	hm := st.hget(has, SArr(SInt, SArr(SInt, SBool)))
	was := Select(Select(hm, ref), kt)
	st.hset(has, Store(hm, ref, Store(Select(hm, ref), kt, False)))
	lm := st.hget(ln, SArr(SInt, SInt))
	st.hset(ln, Store(lm, ref, Ite(was, Sub(Select(lm, ref), Num(1)), Select(lm, ref))))
	if curLog != nil {
		*curLog = append(*curLog, writeRec{has, ref}, writeRec{ln, ref})
	}
}

// ---- interfaces

func (c *FnCtx) box(st *State, v *Val, t types.Type) *Val {
	it := &Val{K: VIface, Tag: typeTag(t)}
	switch v.K {
	case VScalar:
		if v.X.S == SBool {
			it.Box = App("boxv", SInt, Ite(v.X, Num(1), Num(0)))
		} else if v.Addr != nil {
			it.Box = addrTerm(v.Addr)
		} else if isRefType(t) {
			it.Box = v.X
		} else {
			// non-reference scalars are boxed through an injective map into the negative integers,
			// so that every box is either such an image or an allocated reference (< ac)
			it.Box = App("boxv", SInt, v.X)
		}
	default:
		r := c.newRef(st, "box")
		Heap{st: st, log: curLog}.storeDeref(r, t, v)
		it.Box = r
	}
	return it
}

func (c *FnCtx) unbox(st *State, iv *Val, t types.Type) *Val {
	switch t.Underlying().(type) {
	case *types.Struct, *types.Slice:
		v := Heap{st: st}.loadDeref(iv.Box, t)
		c.heapValFacts(st, v)
		return v
	case *types.Interface:
		return &Val{K: VIface, T: t, Tag: iv.Tag, Box: iv.Box}
	}
	if isBoolType(t) {
		return scalar(t, Eq(App("unboxv", SInt, iv.Box), Num(1)))
	}
	if isRefType(t) {
		return scalar(t, iv.Box)
	}
	return scalar(t, App("unboxv", SInt, iv.Box))
}

// ---- SSA values

func (fr *Frame) get(st *State, v ssa.Value) *Val {
	switch x := v.(type) {
	case *ssa.Const:
		return constToVal(x)
	case *ssa.Function:
		fr.fnConsts[x.RelString(nil)] = x
		return &Val{K: VScalar, T: x.Type(), X: fnID(x.RelString(nil)), Fn: &FuncVal{Fn: x}}
	case *ssa.Global:
		return ptrVal(x.Type(), &Addr{Kind: AGlobal, Glob: x})
	case *ssa.Builtin:
		efail("builtin %s used as a value", x.Name())
	}
	if r, ok := fr.vals[v]; ok {
		return r
	}
	efail("no value for %s (%T) in %s", v.Name(), v, fr.fn.Name())
	return nil
}

func constToVal(x *ssa.Const) *Val {
	t := x.Type()
	if x.Value == nil {
		return zeroVal(t)
	}
	switch x.Value.Kind() {
	case constant.Bool:
		return scalar(t, BoolT(constant.BoolVal(x.Value)))
	case constant.String:
		return scalar(t, strLit(constant.StringVal(x.Value)))
	case constant.Int:
		if isFloatType(t) {
			return scalar(t, App("floatconst", SInt, strLit(x.Value.ExactString())))
		}
		n, _ := new(big.Int).SetString(x.Value.ExactString(), 10)
		return scalar(t, NumBig(n))
	case constant.Float:
		if isFloatType(t) {
			return scalar(t, App("floatconst", SInt, strLit(x.Value.ExactString())))
		}
		if i := constant.ToInt(x.Value); i.Kind() == constant.Int {
			n, _ := new(big.Int).SetString(i.ExactString(), 10)
			return scalar(t, NumBig(n))
		}
	}
	efail("unsupported constant %s", x)
	return nil
}

func (c *FnCtx) note(format string, a ...interface{}) {
	n := fmt.Sprintf(format, a...)
	for _, x := range c.notes {
		if x == n {
			return
		}
	}
	c.notes = append(c.notes, n)
}

// orderedLocals lists the named locals (stack and heap Allocs) of fn in instruction order.
func orderedLocals(fn *ssa.Function) []*ssa.Alloc {
	var out []*ssa.Alloc
	for _, b := range fn.Blocks {
		for _, in := range b.Instrs {
			if a, ok := in.(*ssa.Alloc); ok && a.Comment != "" {
				out = append(out, a)
			}
		}
	}
	return out
}

// localAliases: when a contract names a local that no longer exists, and the function's locals
// still have the same number, order and types as in the snapshot taken when the contract was
// written, the name is bound positionally (a pure renaming of locals). Returns the current name.
func (fr *Frame) localAlias(name string) string {
	snap := fr.c.eng.localsSnap[fr.fn.RelString(nil)]
	if snap == nil {
		return ""
	}
	cur := orderedLocals(fr.fn)
	if len(cur) != len(snap) {
		return ""
	}
	alias := ""
	for i, a := range cur {
		if snap[i][1] != a.Type().String() {
			return ""
		}
		if snap[i][0] == name {
			if alias != "" && alias != a.Comment {
				return "" // ambiguous
			}
			alias = a.Comment
		}
	}
	if alias != "" {
		fr.c.note("contract identifier %q bound to the renamed local %q of %s (same position and type as when the contract was written)", name, alias, fr.fn.Name())
	}
	return alias
}

// localByName finds the current value of a source-level local variable.
func (fr *Frame) localByName(st *State, name string) *Val {
	if v := fr.localByName1(st, name); v != nil {
		return v
	}
	if fr.depth == 0 {
		if alias := fr.localAlias(name); alias != "" && alias != name {
			// only when the old name is gone altogether
			for _, a := range orderedLocals(fr.fn) {
				if a.Comment == name {
					return nil
				}
			}
			return fr.localByName1(st, alias)
		}
	}
	return nil
}

// inScope: the declaration of local a reaches the block being executed (its Alloc dominates it);
// distinguishes same-named locals of sibling scopes (the `l`, `i` of several switch cases).
func (fr *Frame) inScope(a *ssa.Alloc) bool {
	if fr.curBlock == nil || a.Block() == nil || fr.curBlock.Parent() != a.Parent() {
		return true
	}
	return a.Block() == fr.curBlock || a.Block().Dominates(fr.curBlock)
}

func (fr *Frame) localByName1(st *State, name string) *Val {
	if v := fr.localByName2(st, name, true); v != nil {
		return v
	}
	return fr.localByName2(st, name, false)
}

func (fr *Frame) localByName2(st *State, name string, scoped bool) *Val {
	var best *ssa.Alloc
	for _, l := range fr.fn.Locals {
		if l.Comment != name {
			continue
		}
		if !fr.allocAt[l] {
			continue
		}
		if scoped && !fr.inScope(l) {
			continue
		}
		if best == nil || l.Pos() >= best.Pos() { // ties (position-less hidden locals such as rangeindex): the latest allocated
			best = l
		}
	}
	{
		// heap-allocated (escaping) locals are Allocs with Heap=true and not in Locals
		for _, b := range fr.fn.Blocks {
			for _, in := range b.Instrs {
				if a, ok := in.(*ssa.Alloc); ok && a.Comment == name && fr.allocAt[a] && (!scoped || fr.inScope(a)) {
					if best == nil || a.Pos() > best.Pos() {
						best = a
					}
				}
			}
		}
	}
	if best == nil {
		return nil
	}
	pv := fr.vals[best]
	if pv == nil {
		return nil
	}
	if _, isStruct := derefType(best.Type()).Underlying().(*types.Struct); isStruct && !isOpaque(derefType(best.Type())) && (pv.Addr == nil || pv.Addr.Kind != ACell) {
		return pv // addressable struct local: its address carries the identity (ghost fields) and gives field access
	}
	return fr.c.load(st, pv)
}

func escapes(a *ssa.Alloc) bool {
	var check func(v ssa.Value) bool
	check = func(v ssa.Value) bool {
		refs := v.Referrers()
		if refs == nil {
			return true
		}
		for _, r := range *refs {
			switch x := r.(type) {
			case *ssa.Store:
				if x.Val == v {
					return true
				}
			case *ssa.UnOp:
				if x.Op != token.MUL {
					return true
				}
			case *ssa.FieldAddr:
				if check(x) {
					return true
				}
			case *ssa.DebugRef:
			default:
				return true
			}
		}
		return false
	}
	return check(a)
}

// function constants are distinct negative integers
var fnIDs = map[string]int64{}

func fnID(name string) *Term {
	id, ok := fnIDs[name]
	if !ok {
		id = int64(len(fnIDs) + 1)
		fnIDs[name] = id
	}
	return Num(-2000000 - id)
}

// escapingElemPtr: a pointer to a struct element of a slice used as a first-class value; the
// struct-of-arrays model cannot dereference it later, so this is rejected (engine error).
func escapingElemPtr(v *Val) bool {
	if v == nil || v.Addr == nil || v.Addr.Kind != AElem {
		return false
	}
	_, isStruct := v.Addr.ET.Underlying().(*types.Struct)
	return isStruct && !isOpaque(v.Addr.ET)
}
