package main

// Engine: loading /repo, contract files, function index, per-function verification driver.

import (
	"go/token"
	"encoding/json"
	"fmt"
	"go/types"
	"math/big"
	"os"
	"path/filepath"
	"sort"
	"strings"

	"golang.org/x/tools/go/packages"
	"golang.org/x/tools/go/ssa"
	"golang.org/x/tools/go/ssa/ssautil"
)

type Engine struct {
	repo           string
	prog           *ssa.Program
	pkgs           []*packages.Package
	pkgByName      map[string]*types.Package
	pkgByPath      map[string]*types.Package
	funcs          map[string]*ssa.Function
	contracts      map[string]*Contract
	ifaceContracts map[string]*Contract
	functypes      map[string]*Contract
	fieldFuncs     map[string]*Contract
	contractPkg    map[*Contract]*types.Package
	specs          map[string]*SpecFunc
	axioms         []*Axiom
	ghostFields    map[string]*GhostField
	ghostOrder     []string
	guards         []*Guarded
	consts         map[string]*big.Int
	cfgs           map[*ssa.Function]*cfgInfo
	specFiles      []*SpecFile
	loadErrs       []string
	axiomTerms     []axiomTerm
	guardIdx       map[string]*guardDecl
	immutableNote  []string
	localsSnap     map[string][][2]string // function key -> ordered (name, type) of its named locals at contract time
	ownContracts   map[string]*Contract   // implementer refinements as written (before merging with the interface contract)
	guardByField   map[string]*guardDecl
}

type axiomTerm struct {
	ax    *Axiom
	t     *Term
	syms  map[string]bool
	facts []*Term // type invariants of lemma parameters
}

func (e *Engine) cfgOf(fn *ssa.Function) *cfgInfo {
	if c, ok := e.cfgs[fn]; ok {
		return c
	}
	c := analyzeCFG(fn)
	e.cfgs[fn] = c
	return c
}

func LoadEngine(repo string, trustedDir string, patterns []string) (*Engine, error) {
	e := &Engine{repo: repo, pkgByName: map[string]*types.Package{}, pkgByPath: map[string]*types.Package{}, funcs: map[string]*ssa.Function{},
		contracts: map[string]*Contract{}, ifaceContracts: map[string]*Contract{}, functypes: map[string]*Contract{}, fieldFuncs: map[string]*Contract{}, contractPkg: map[*Contract]*types.Package{},
		specs: map[string]*SpecFunc{}, ghostFields: map[string]*GhostField{}, consts: map[string]*big.Int{}, cfgs: map[*ssa.Function]*cfgInfo{}, guardByField: map[string]*guardDecl{}}
	cfg := &packages.Config{Mode: packages.LoadAllSyntax, Dir: repo, BuildFlags: []string{"-tags=verif"},
		Env: append(os.Environ(), "GOFLAGS=-mod=mod", "GOPROXY=off", "GOSUMDB=off", "GOTOOLCHAIN=local")}
	pkgs, err := packages.Load(cfg, patterns...)
	if err != nil {
		return nil, err
	}
	for _, p := range pkgs {
		for _, pe := range p.Errors {
			e.loadErrs = append(e.loadErrs, pe.Error())
		}
	}
	if len(e.loadErrs) > 0 {
		return nil, fmt.Errorf("package load errors: %s", strings.Join(e.loadErrs, "; "))
	}
	e.pkgs = pkgs
	for _, k := range []types.BasicKind{types.Bool, types.Int, types.Int8, types.Int16, types.Int32, types.Int64, types.Uint, types.Uint8, types.Uint16, types.Uint32, types.Uint64, types.Float32, types.Float64, types.String} {
		typeTag(types.Typ[k]) // pre-register: lets interface assertions rule out the basic types
	}
	prog, _ := ssautil.AllPackages(pkgs, ssa.NaiveForm|ssa.GlobalDebug)
	prog.Build()
	e.prog = prog
	for _, sp := range prog.AllPackages() {
		e.pkgByPath[sp.Pkg.Path()] = sp.Pkg
		if _, dup := e.pkgByName[sp.Pkg.Name()]; !dup || strings.HasPrefix(sp.Pkg.Path(), "github.com/lugu/qiloop") {
			e.pkgByName[sp.Pkg.Name()] = sp.Pkg
		}
	}
	for fn := range ssautil.AllFunctions(prog) {
		e.funcs[fn.RelString(nil)] = fn
	}
	// contract files in the loaded /repo packages
	var repoPkgs []*packages.Package
	packages.Visit(pkgs, nil, func(p *packages.Package) {
		if strings.HasPrefix(p.PkgPath, "github.com/lugu/qiloop") {
			repoPkgs = append(repoPkgs, p)
		}
	})
	sort.Slice(repoPkgs, func(i, j int) bool { return repoPkgs[i].PkgPath < repoPkgs[j].PkgPath })
	for _, p := range repoPkgs {
		dirs := map[string]bool{}
		for _, f := range p.GoFiles {
			dirs[filepath.Dir(f)] = true
		}
		for d := range dirs {
			matches, _ := filepath.Glob(filepath.Join(d, "zz_contracts*_verif.go"))
			sort.Strings(matches)
			for _, m := range matches {
				sf, err := ParseSpecFile(m, p.PkgPath, true, false)
				if err != nil {
					return nil, err
				}
				e.addSpecFile(sf, p.Types)
			}
		}
	}
	// names of the locals of each function as they were when its contract was written (see
	// localAliases): lets a contract survive a pure renaming of locals
	if data, err := os.ReadFile(filepath.Join(filepath.Dir(trustedDir), "locals_snapshot.json")); err == nil {
		json.Unmarshal(data, &e.localsSnap)
	}
	tfiles, _ := filepath.Glob(filepath.Join(trustedDir, "*.spec"))
	sort.Strings(tfiles)
	for _, m := range tfiles {
		sf, err := ParseSpecFile(m, "", false, true)
		if err != nil {
			return nil, err
		}
		e.addSpecFile(sf, nil)
	}
	e.mergeImplementerContracts()
	return e, nil
}

// mergeImplementerContracts: the effective contract of a method implementing a contracted /repo
// interface is the interface contract plus the implementer's own refinement; it is used at static
// and devirtualized call sites (the implementer is verified against it by implObligations).
func (e *Engine) mergeImplementerContracts() {
	e.ownContracts = map[string]*Contract{}
	var keys []string
	for k := range e.ifaceContracts {
		keys = append(keys, k)
	}
	sort.Strings(keys)
	for _, k := range keys {
		ict := e.ifaceContracts[k]
		if ict.IsTrustedFile || ict.Trusted {
			continue
		}
		for _, fn := range e.implementers(ict) {
			key := fn.RelString(nil)
			own := e.contracts[key]
			if own == nil {
				continue
			}
			e.ownContracts[key] = own
			ct := *ict
			ct.Kind = "func"
			ct.Key = key
			ct.Tags = nil
			ct.Aliases = map[string]string{}
			if own.Recv != nil && ict.Recv != nil {
				ct.Aliases[own.Recv.Name] = ict.Recv.Name
			}
			for i, p := range own.Params {
				if i < len(ict.Params) {
					ct.Aliases[p.Name] = ict.Params[i].Name
				}
			}
			for i, p := range own.Results {
				if i < len(ict.Results) {
					ct.Aliases[p.Name] = ict.Results[i].Name
				}
			}
			ct.Loops = own.Loops
			ct.Asserts = own.Asserts
			ct.Requires = append(append([]*Clause(nil), ict.Requires...), own.Requires...)
			ct.Ensures = append(append([]*Clause(nil), ict.Ensures...), own.Ensures...)
			ct.Modifies = append(append([]*Expr(nil), ict.Modifies...), own.Modifies...)
			ct.Opts = map[string]string{}
			for k2, v := range ict.Opts {
				ct.Opts[k2] = v
			}
			for k2, v := range own.Opts {
				ct.Opts[k2] = v
			}
			ct.implOf = ict
			e.contracts[key] = &ct
			e.contractPkg[&ct] = e.contractPkg[own]
		}
	}
}

// normalizeKey expands a short package name in a contract key ("net.EndPoint.Close",
// "(*net.Header).Read") to the import path of the loaded package of that name.
func (e *Engine) normalizeKey(k string, filePkg *types.Package) string {
	prefix := ""
	rest := k
	if strings.HasPrefix(rest, "(*") {
		prefix, rest = "(*", rest[2:]
	} else if strings.HasPrefix(rest, "(") {
		prefix, rest = "(", rest[1:]
	}
	i := strings.Index(rest, ".")
	if i <= 0 || strings.Contains(rest[:i], "/") {
		return k
	}
	name := rest[:i]
	if filePkg != nil {
		// the contract file's own imports decide what a short name means
		for _, imp := range filePkg.Imports() {
			if imp.Name() == name {
				return prefix + imp.Path() + rest[i:]
			}
		}
	}
	if p := e.pkgByName[name]; p != nil && p.Path() != name {
		if _, std := e.pkgByPath[name]; !std {
			return prefix + p.Path() + rest[i:]
		}
	}
	return k
}

func (e *Engine) addSpecFile(sf *SpecFile, pkg *types.Package) {
	e.specFiles = append(e.specFiles, sf)
	for _, c := range sf.Contracts {
		c.Key = e.normalizeKey(c.Key, pkg)
		switch c.Kind {
		case "func":
			if _, dup := e.contracts[c.Key]; dup {
				e.loadErrs = append(e.loadErrs, "duplicate contract "+c.Key)
			}
			e.contracts[c.Key] = c
		case "interface":
			e.ifaceContracts[c.Key] = c
		case "functype":
			e.functypes[c.Key] = c
		case "fieldfunc":
			e.fieldFuncs[c.Key] = c
		}
		if pkg != nil {
			e.contractPkg[c] = pkg
		} else {
			// trusted: package from the key
			k := c.Key
			k = strings.TrimPrefix(k, "(")
			k = strings.TrimPrefix(k, "*")
			if i := strings.LastIndex(k, "."); i > 0 {
				path := k[:i]
				if j := strings.LastIndex(path, "."); j > 0 && c.Kind != "functype" && (c.Recv != nil || c.Kind == "interface") {
					path = path[:j]
				}
				path = strings.TrimSuffix(path, ")")
				if p := e.pkgByPath[path]; p != nil {
					e.contractPkg[c] = p
				} else if p := e.pkgByName[path]; p != nil {
					e.contractPkg[c] = p
				}
			}
		}
	}
	for _, s := range sf.Specs {
		e.specs[s.Name] = s
	}
	for _, a := range sf.Axioms {
		e.axioms = append(e.axioms, a)
	}
	for _, g := range sf.Ghosts {
		if _, ok := e.ghostFields[g.Name]; !ok {
			e.ghostOrder = append(e.ghostOrder, g.Name)
		}
		e.ghostFields[g.Name] = g
		if g.Counter {
			counterGhosts["g:"+g.Name] = true
			e.immutableNote = append(e.immutableNote, "ghost counter "+g.Name+" (uncontracted callees are assumed not to perform the counted operation)")
		}
	}
	e.guards = append(e.guards, sf.Guards...)
	for _, im := range sf.Immutable {
		// "Type.field" in the file's package
		name := im
		if pkg != nil && !strings.Contains(strings.SplitN(im, ".", 2)[0], "/") && strings.Count(im, ".") == 1 {
			name = pkg.Name() + "." + im
		}
		immutableFields[name] = true
		e.immutableNote = append(e.immutableNote, name)
	}
	for k, v := range sf.Consts {
		e.consts[k] = v
	}
}

// ---- function verification

func (e *Engine) newCtx(fn *ssa.Function, ct *Contract) *FnCtx {
	return &FnCtx{eng: e, fn: fn, contract: ct, unknown: map[string]bool{}, used: map[string]bool{}, trusted: map[string]bool{},
		factSeen: map[int]bool{}, ordinals: map[ssa.Instruction]int{}, callOrd: map[ssa.Instruction]string{}, ghostVals: map[string]*Val{}, inlined: map[string]bool{}, readonlyExt: map[string]bool{}, counterWrites: map[string]string{}}
}

func (e *Engine) VerifyFunction(fn *ssa.Function, ct *Contract) (c *FnCtx) {
	c = e.newCtx(fn, ct)
	lateDef = func(t *Term) { c.addDef(t) }
	defer func() {
		if r := recover(); r != nil {
			if ee, ok := r.(evalError); ok {
				c.errorf("%s: %s", fn.Name(), ee.msg)
				return
			}
			panic(r)
		}
	}()
	if len(fn.Blocks) == 0 {
		c.errorf("%s has no body", fn.RelString(nil))
		return c
	}
	fr := newFrame(c, fn)
	fr.contract = ct
	c.top = fr
	c.checkClauseSites(fn, ct)
	st := &State{pc: True, cells: map[*ssa.Alloc]*Val{}, heap: map[string]*Term{}, ac: Var("ac0", SInt)}
	c.addFact(nil, Lt(Num(0), st.ac))
	var args []*Val
	for i, p := range fn.Params {
		v, facts := freshVal(p.Type(), "p."+p.Name())
		for _, f := range facts {
			c.addFact(nil, f)
		}
		for _, f := range allocFacts(v, st.ac) {
			c.addFact(nil, f)
		}
		if i == 0 && fn.Signature.Recv() != nil {
			if _, ok := p.Type().Underlying().(*types.Pointer); ok {
				c.addFact(nil, Neq(v.X, Num(0))) // assumption: methods are not invoked on nil receivers
			}
		}
		fr.vals[p] = v
		args = append(args, v)
	}
	for _, fv := range fn.FreeVars {
		v, facts := freshVal(fv.Type(), "fv."+fv.Name())
		for _, f := range facts {
			c.addFact(nil, f)
		}
		for _, f := range allocFacts(v, st.ac) {
			c.addFact(nil, f)
		}
		if _, isPtr := fv.Type().Underlying().(*types.Pointer); isPtr {
			c.addFact(nil, Neq(v.X, Num(0))) // a captured variable is a live cell
		}
		fr.vals[fv] = v
	}
	var recv *Val
	cargs := args
	if fn.Signature.Recv() != nil && len(args) > 0 {
		recv = args[0]
		cargs = args[1:]
	}
	if fn.Parent() != nil && ct.Recv != nil {
		// function literal: the "receiver" in the contract header only names the enclosing method;
		// captured variables are bound by name below
		cc := *ct
		cc.Recv = nil
		ct = &cc
		c.contract = ct
		fr.contract = ct
	}
	vars, err := contractVars(ct, fn.Signature, recv, cargs, nil)
	if err != nil {
		c.errorf("%v", err)
		return c
	}
	for _, fv := range fn.FreeVars {
		// captured variables are cells: the contract sees their value at entry
		if pv := fr.vals[fv]; pv != nil {
			if _, isPtr := fv.Type().Underlying().(*types.Pointer); isPtr {
				func() {
					defer func() { recover() }()
					vars[fv.Name()] = c.load(st, pv)
				}()
			} else {
				vars[fv.Name()] = pv
			}
		}
	}
	pkg := c.pkgOfContract(ct, fn)
	// ghost (logical) parameters: universally quantified
	for _, g := range ct.Ghosts {
		env := &Env{c: c, cur: st, vars: vars, pkg: pkg}
		var gv *Val
		switch g.Type {
		case "int":
			gv = mathInt(Fresh("ghost."+g.Name, SInt))
		case "bool":
			gv = mathBool(Fresh("ghost."+g.Name, SBool))
		default:
			te, perr := ParseExpr(g.Type)
			if perr != nil {
				c.errorf("ghost %s: %v", g.Name, perr)
				continue
			}
			var t types.Type
			func() {
				defer func() {
					if r := recover(); r != nil {
						c.errorf("ghost %s: unknown type %s", g.Name, g.Type)
					}
				}()
				t = env.resolveType(te)
			}()
			if t == nil {
				continue
			}
			var facts []*Term
			gv, facts = freshVal(t, "ghost."+g.Name)
			for _, f := range facts {
				c.addFact(nil, f)
			}
		}
		vars[g.Name] = gv
		c.ghostVals[g.Name] = gv
	}
	fr.vars = vars
	fr.entry = st.clone()
	env := &Env{c: c, cur: st, old: fr.entry, vars: vars, pkg: pkg}
	var pres []*Term
	for i, r := range ct.Requires {
		t, err := env.evalClause(r.E)
		if err != nil {
			c.errorf("requires#%d: %v", i+1, err)
			continue
		}
		c.addFact(nil, t)
		pres = append(pres, t)
	}
	cov := c.oblige(fr, st, "cover", "cover/pre", False, nil, "preconditions are satisfiable", true)
	cov.ExpectSat = true
	exit, results := fr.runBody(st)
	if exit == nil {
		c.notes = append(c.notes, "function never returns normally")
		return c
	}
	if fn.Parent() != nil {
		recv = nil
	}
	if len(c.errs) > 0 {
		return c
	}
	cov2 := c.oblige(fr, exit, "cover", "cover/exit", False, nil, "some return is reachable", true)
	cov2.ExpectSat = true
	vars2, err := contractVars(ct, fn.Signature, recv, cargs, results)
	if err != nil {
		c.errorf("%v", err)
		return c
	}
	for k, v := range c.ghostVals {
		vars2[k] = v
	}
	for _, fv := range fn.FreeVars {
		if v, ok := vars[fv.Name()]; ok {
			if _, clash := vars2[fv.Name()]; !clash {
				vars2[fv.Name()] = v
			}
		}
	}
	post := &Env{c: c, cur: exit, old: fr.entry, vars: vars2, pkg: pkg}
	c.preEnv = &Env{c: c, cur: fr.entry, old: fr.entry, vars: vars, pkg: pkg}
	c.postEnv = post
	// ghost updates at return
	genv := *post
	genv.frame = fr // ghost_at_return may name source-level locals (their value at the return)
	for _, g := range ct.GhostRet {
		if err := c.ghostAssign(&genv, g); err != nil {
			c.errorf("ghost_at_return: %v", err)
		}
	}
	for i, en := range ct.Ensures {
		t, err := post.evalClause(en.E)
		if err != nil {
			c.errorf("ensures#%d: %v", i+1, err)
			continue
		}
		c.oblige(fr, exit, "ensures", fmt.Sprintf("ensures#%d", i+1), t, clauseTags(en, ct), en.Text, false)
	}
	c.frameObligations(fr, exit, env, ct)
	return c
}

func (c *FnCtx) ghostAssign(env *Env, g *Clause) (err error) {
	defer func() {
		if r := recover(); r != nil {
			if ee, ok := r.(evalError); ok {
				err = fmt.Errorf("%s", ee.msg)
				return
			}
			panic(r)
		}
	}()
	if g.LHS.Kind != ESel {
		return fmt.Errorf("ghost assignment target must be x.field")
	}
	gf, ok := c.eng.ghostFields[g.LHS.Name]
	if !ok {
		return fmt.Errorf("unknown ghost field %s", g.LHS.Name)
	}
	base := env.eval(g.LHS.Args[0])
	v := env.eval(g.E)
	if counterGhosts[ghostMapName(gf.Name)] {
		c.counterWrites[ghostMapName(gf.Name)] = "ghost assignment"
	}
	Heap{st: env.cur}.storeGhost(identity(base), gf, v.X)
	return nil
}

// frameObligations: everything not named in modifies is unchanged (for objects allocated at entry).
func (c *FnCtx) frameObligations(fr *Frame, exit *State, entryEnv *Env, ct *Contract) {
	allowed := map[string][]*Term{}
	whole := map[string]bool{}
	all := false
	for _, m := range ct.Modifies {
		locs, err := entryEnv.evalLocs(m)
		if err != nil {
			c.errorf("%v", err)
			continue
		}
		for _, l := range locs {
			if l.mapName == "*" {
				all = true
			} else if l.ref == nil {
				whole[l.mapName] = true
			} else {
				allowed[l.mapName] = append(allowed[l.mapName], l.ref)
			}
		}
	}
	if all {
		// `everything` covers all ordinary locations. Counter ghosts are exempt from the callers'
		// havoc, so they have to be listed explicitly to change: every counter that a callee's
		// contract (or a ghost assignment of this function) writes must be named in this
		// function's modifies clause. Decided syntactically (no solver): a loop-head havoc of a
		// ghost map that is only written at fresh objects would make the semantic frame
		// obligation unprovable.
		var ks []string
		for k := range c.counterWrites {
			ks = append(ks, k)
		}
		sort.Strings(ks)
		for _, k := range ks {
			if !whole[k] && len(allowed[k]) == 0 {
				c.errorf("frame: ghost counter %s is changed (%s) but not listed in the modifies clause of %s; callers would assume it unchanged", strings.TrimPrefix(k, "g:"), c.counterWrites[k], ct.Key)
			}
		}
		return
	}
	var names []string
	for k := range exit.heap {
		names = append(names, k)
	}
	sort.Strings(names)
	ac0 := fr.entry.ac
	for _, k := range names {
		if strings.HasPrefix(k, "v:") || whole[k] {
			continue
		}
		srt := heapSorts[k]
		before := fr.entry.hget(k, srt)
		after := exit.heap[k]
		if before == after {
			continue
		}
		var goal *Term
		if !srt.IsArr() {
			goal = Eq(before, after)
		} else {
			x := BVar("x", SInt)
			conds := []*Term{Lt(App("rootof", SInt, x), ac0)}
			for _, r := range allowed[k] {
				conds = append(conds, Neq(x, r))
			}
			goal = Forall([]*Term{x}, nil, Implies(And(conds...), Eq(Select(after, x), Select(before, x))))
		}
		c.oblige(fr, exit, "frame", "frame:"+k, goal, nil, "only locations in the modifies clause change ("+k+")", true)
	}
}

var srcCache = map[string][]string{}

// sourceLine returns the trimmed source line at pos ("" if unknown).
func (e *Engine) sourceLine(pos token.Pos) string {
	if !pos.IsValid() {
		return ""
	}
	p := e.prog.Fset.Position(pos)
	lines, ok := srcCache[p.Filename]
	if !ok {
		data, err := os.ReadFile(p.Filename)
		if err == nil {
			lines = strings.Split(string(data), "\n")
		}
		srcCache[p.Filename] = lines
	}
	if p.Line >= 1 && p.Line <= len(lines) {
		return strings.TrimSpace(lines[p.Line-1])
	}
	return ""
}

// checkClauseSites: every `call f#n:` clause of a contract must name a call (or select) site that
// exists in the function or in one of its function literals. A clause whose site has disappeared
// (the call was removed or its ordinal changed) would otherwise be silently dropped and the
// property it states would no longer be checked: reported as "contract out of date".
func (c *FnCtx) checkClauseSites(fn *ssa.Function, ct *Contract) {
	if ct == nil || len(ct.Asserts) == 0 {
		return
	}
	sites := map[string]bool{}
	var visit func(f *ssa.Function)
	visit = func(f *ssa.Function) {
		tmp := &FnCtx{ordinals: map[ssa.Instruction]int{}, callOrd: map[ssa.Instruction]string{}}
		tmp.computeOrdinals(f)
		for _, k := range tmp.callOrd {
			sites[k] = true
		}
		for _, a := range f.AnonFuncs {
			visit(a)
		}
	}
	visit(fn)
	var missing []string
	for k, cl := range ct.Asserts {
		if sites[k] {
			continue
		}
		// `call f#n: assert false` is a guard against a site APPEARING (a second dynamic call, say):
		// its site is meant not to exist
		guard := true
		for _, a := range cl {
			if !(a.Kind == "assert" && strings.TrimSpace(a.Text) == "false") {
				guard = false
			}
		}
		if !guard {
			missing = append(missing, k)
		}
	}
	sort.Strings(missing)
	for _, k := range missing {
		c.errorf("%s: the contract has clauses at call site %s, which does not exist in the function any more (contract out of date)", fn.Name(), k)
	}
}
