package main

// Replay of solver counterexamples against the real code (DESIGN.md §6.2).
//
// 1. Inputs are read off the solver model through contract-language expressions evaluated in the
//    function's entry environment (r.pos, r.data[...], length, h.ID, ...).
// 2. An in-package Go test is generated that builds those inputs (scripted reader / recording
//    writer for streams), calls the REAL function and prints what it observed as JSON. It is run
//    with `go test -overlay`, so nothing is written under /repo.
// 3. The observations are asserted on the post-state terms of the failed clause, the inputs are
//    pinned to the model's values, and the solver is asked whether the clause can still hold. Only
//    if it cannot (unsat) is the violation reported as reproduced; unobservable ghost state is left
//    unconstrained, which can only make a reproduction harder, never spurious.

import (
	"encoding/json"
	"fmt"
	"go/types"
	"math/big"
	"os"
	"os/exec"
	"path/filepath"
	"regexp"
	"strings"
	"context"
	"time"
)

const replayMaxBytes = 1 << 16

type rvar struct {
	name string // contract name
	t    types.Type
	role string // recv | param | result
}

// queryModel returns the model values of the given Int/Bool terms for an obligation, with extra
// assertions (pins) added.
func queryModel(eng *Engine, o *Obligation, terms []*Term, pins []*Term, outDir string, timeout int) ([]*big.Int, bool) {
	saved := o.Extra
	o.Extra = append(append([]*Term(nil), saved...), pins...)
	var defs []*Term
	names := make([]string, len(terms))
	for i, t := range terms {
		n := fmt.Sprintf("gv!%d", i)
		names[i] = n
		if t.S == SBool {
			defs = append(defs, Eq(Var(n, SInt), Ite(t, Num(1), Num(0))))
		} else {
			defs = append(defs, Eq(Var(n, SInt), t))
		}
	}
	o.Extra = append(o.Extra, defs...)
	script := o.script(eng, true)
	o.Extra = saved
	script = strings.Replace(script, "(get-model)\n", "", 1)
	var sb strings.Builder
	sb.WriteString(script)
	sb.WriteString("(get-value (")
	for _, n := range names {
		sb.WriteString(smtName(n) + " ")
	}
	sb.WriteString("))\n")
	file := filepath.Join(outDir, "replay_query.smt2")
	os.WriteFile(file, []byte(sb.String()), 0o644)
	status, out, _ := runSolver(solvers[0], file, timeout)
	if status != "sat" {
		return nil, false
	}
	re := regexp.MustCompile(`\(\|?(gv![0-9]+)\|?\s+(\(-\s*[0-9]+\)|[0-9]+)\)`)
	vals := map[string]*big.Int{}
	for _, m := range re.FindAllStringSubmatch(out, -1) {
		v := strings.NewReplacer("(", "", ")", "", "-", "", " ", "").Replace(m[2])
		n, _ := new(big.Int).SetString(v, 10)
		if strings.Contains(m[2], "-") {
			n.Neg(n)
		}
		vals[m[1]] = n
	}
	res := make([]*big.Int, len(terms))
	for i, n := range names {
		v, ok := vals[n]
		if !ok {
			return nil, false
		}
		res[i] = v
	}
	return res, true
}

type replayer struct {
	eng     *Engine
	o       *Obligation
	c       *FnCtx
	outDir  string
	repo    string
	pins    []*Term
	timeout int
	notes   []string
}

func (rp *replayer) evalPre(expr string) (*Term, error) {
	e, err := ParseExpr(expr)
	if err != nil {
		return nil, err
	}
	var t *Term
	func() {
		defer func() {
			if r := recover(); r != nil {
				err = fmt.Errorf("%v", r)
			}
		}()
		v := rp.c.preEnv.eval(e)
		if v.K != VScalar {
			err = fmt.Errorf("not a scalar: %s", expr)
			return
		}
		t = v.X
	}()
	return t, err
}

func (rp *replayer) evalPost(expr string) (*Term, error) {
	e, err := ParseExpr(expr)
	if err != nil {
		return nil, err
	}
	return rp.c.postEnv.evalClause(e)
}

// get reads model values of pre-state expressions and pins them.
func (rp *replayer) get(exprs ...string) ([]*big.Int, error) {
	var terms []*Term
	for _, x := range exprs {
		t, err := rp.evalPre(x)
		if err != nil {
			return nil, fmt.Errorf("%s: %v", x, err)
		}
		terms = append(terms, t)
	}
	vals, ok := queryModel(rp.eng, rp.o, terms, rp.pins, rp.outDir, rp.timeout)
	if !ok {
		return nil, fmt.Errorf("solver gave no model for %v", exprs)
	}
	for i, t := range terms {
		if t.S == SBool {
			if vals[i].Sign() != 0 {
				rp.pins = append(rp.pins, t)
			} else {
				rp.pins = append(rp.pins, Not(t))
			}
		} else {
			rp.pins = append(rp.pins, Eq(t, NumBig(vals[i])))
		}
	}
	return vals, nil
}

func (rp *replayer) getBytes(lenExpr string, elemFmt string) ([]byte, error) {
	lv, err := rp.get(lenExpr)
	if err != nil {
		return nil, err
	}
	if !lv[0].IsInt64() || lv[0].Int64() < 0 || lv[0].Int64() > replayMaxBytes {
		return nil, fmt.Errorf("%s = %s: too large to replay", lenExpr, lv[0])
	}
	n := int(lv[0].Int64())
	out := make([]byte, n)
	for lo := 0; lo < n; lo += 256 {
		hi := lo + 256
		if hi > n {
			hi = n
		}
		var exprs []string
		for i := lo; i < hi; i++ {
			exprs = append(exprs, fmt.Sprintf(elemFmt, i))
		}
		vs, err := rp.get(exprs...)
		if err != nil {
			return nil, err
		}
		for i, v := range vs {
			out[lo+i] = byte(new(big.Int).And(v, big.NewInt(255)).Int64())
		}
	}
	return out, nil
}

func goBytes(b []byte) string {
	var sb strings.Builder
	sb.WriteString("[]byte{")
	for i, x := range b {
		if i > 0 {
			sb.WriteString(",")
		}
		fmt.Fprintf(&sb, "%d", x)
	}
	sb.WriteString("}")
	return sb.String()
}

type goInput struct {
	decl    string   // statements declaring the variable
	expr    string   // expression passed to the call
	observe []string // Go statements appending to obs after the call
}

// buildInput constructs Go code for a contract variable from the model.
func (rp *replayer) buildInput(name string, t types.Type, goVar string, pkg *types.Package) (*goInput, error) {
	qual := func(p *types.Package) string {
		if p == pkg {
			return ""
		}
		return p.Name()
	}
	ts := types.TypeString(t, qual)
	switch u := t.Underlying().(type) {
	case *types.Basic:
		switch {
		case isBoolType(t):
			v, err := rp.get(name)
			if err != nil {
				return nil, err
			}
			return &goInput{decl: fmt.Sprintf("var %s %s = %v", goVar, ts, v[0].Sign() != 0), expr: goVar}, nil
		case isStringType(t):
			b, err := rp.getBytes("len("+name+")", name+"[%d]")
			if err != nil {
				return nil, err
			}
			return &goInput{decl: fmt.Sprintf("var %s %s = %s(%s)", goVar, ts, ts, goBytes(b)), expr: goVar}, nil
		case isFloatType(t):
			return nil, fmt.Errorf("float input %s not replayable", name)
		default:
			v, err := rp.get(name)
			if err != nil {
				return nil, err
			}
			return &goInput{decl: fmt.Sprintf("var %s %s = %s", goVar, ts, v[0].String()), expr: goVar}, nil
		}
	case *types.Slice:
		if b, ok := u.Elem().Underlying().(*types.Basic); ok && b.Kind() == types.Uint8 {
			bs, err := rp.getBytes("len("+name+")", name+"[%d]")
			if err != nil {
				return nil, err
			}
			in := &goInput{decl: fmt.Sprintf("var %s %s = %s(%s)", goVar, ts, ts, goBytes(bs)), expr: goVar}
			in.observe = append(in.observe, fmt.Sprintf(`obs["bytes:%s"] = hex.EncodeToString([]byte(%s))`, name, goVar))
			return in, nil
		}
		return nil, fmt.Errorf("slice input %s of %s not replayable", name, ts)
	case *types.Interface:
		switch shortTypeKey(t) {
		case "io.Reader":
			vals, err := rp.get(name+".pos", name+".len", name+".faultfree", name+".short")
			if err != nil {
				return nil, err
			}
			avail := new(big.Int).Sub(vals[1], vals[0])
			if avail.Sign() < 0 || !avail.IsInt64() || avail.Int64() > replayMaxBytes {
				return nil, fmt.Errorf("stream of %s bytes: too large to replay", avail)
			}
			data, err := rp.getBytes(name+".len - "+name+".pos", name+".data["+name+".pos + %d]")
			if err != nil {
				return nil, err
			}
			failAt := -1
			if vals[2].Sign() == 0 {
				// faulty stream: the fault is injected where the model's run stopped consuming
				if pt, err := rp.evalPost(name + ".pos - old(" + name + ".pos) >= 0"); err == nil && pt != nil {
					if pe, err2 := ParseExpr(name + ".pos - old(" + name + ".pos)"); err2 == nil {
						func() {
							defer func() { recover() }()
							term := rp.c.postEnv.eval(pe).X
							if vs, ok := queryModel(rp.eng, rp.o, []*Term{term}, rp.pins, rp.outDir, rp.timeout); ok && vs[0].IsInt64() {
								failAt = int(vs[0].Int64())
							}
						}()
					}
				}
			}
			in := &goInput{decl: fmt.Sprintf("%s := &vReader{data: %s, chunk: chunk, failAt: -1, eofWithData: eofWithData}\n\tif fault { %s.failAt = %d }", goVar, goBytes(data), goVar, failAt), expr: goVar}
			in.observe = append(in.observe,
				fmt.Sprintf(`obs["rpos:%s"] = %s.pos`, name, goVar),
				fmt.Sprintf(`obs["rshort:%s"] = %s.over || %s.failed`, name, goVar, goVar))
			return in, nil
		case "io.Writer":
			vals, err := rp.get(name+".len", name+".accepting")
			if err != nil {
				return nil, err
			}
			if !vals[0].IsInt64() || vals[0].Int64() < 0 || vals[0].Int64() > replayMaxBytes {
				// the initial length is arbitrary: re-pin to a small one if the model allows it
				return nil, fmt.Errorf("writer with initial length %s: too large to replay", vals[0])
			}
			pre, err := rp.getBytes(name+".len", name+".data[%d]")
			if err != nil {
				return nil, err
			}
			in := &goInput{decl: fmt.Sprintf("%s := &vWriter{out: %s, accept: %v, budget: budget}", goVar, goBytes(pre), vals[1].Sign() != 0), expr: goVar}
			in.observe = append(in.observe,
				fmt.Sprintf(`obs["wout:%s"] = hex.EncodeToString(%s.out)`, name, goVar),
				fmt.Sprintf(`obs["wwrites:%s"] = %s.writes`, name, goVar))
			return in, nil
		}
		return nil, fmt.Errorf("interface input %s of type %s not replayable", name, ts)
	case *types.Pointer:
		st, ok := u.Elem().Underlying().(*types.Struct)
		if !ok {
			return nil, fmt.Errorf("pointer input %s not replayable", name)
		}
		ets := types.TypeString(u.Elem(), qual)
		in := &goInput{expr: goVar}
		var fields []string
		var pre []string
		if err := rp.structFields(name, st, goVar, pkg, &fields, &pre, &in.observe, ""); err != nil {
			return nil, err
		}
		in.decl = strings.Join(pre, "\n\t") + fmt.Sprintf("\n\t%s := &%s{%s}", goVar, ets, strings.Join(fields, ", "))
		return in, nil
	case *types.Struct:
		in := &goInput{expr: goVar}
		var fields, pre []string
		var obsDummy []string
		if err := rp.structFields(name, u, goVar, pkg, &fields, &pre, &obsDummy, ""); err != nil {
			return nil, err
		}
		in.decl = strings.Join(pre, "\n\t") + fmt.Sprintf("\n\t%s := %s{%s}", goVar, ts, strings.Join(fields, ", "))
		return in, nil
	}
	return nil, fmt.Errorf("input %s of type %s not replayable", name, ts)
}

func (rp *replayer) structFields(name string, st *types.Struct, goVar string, pkg *types.Package, fields, pre, observe *[]string, path string) error {
	for i := 0; i < st.NumFields(); i++ {
		f := st.Field(i)
		fn := name + "." + f.Name()
		gv := fmt.Sprintf("%s_%s", goVar, f.Name())
		if inner, ok := f.Type().Underlying().(*types.Struct); ok {
			var sub, subObs []string
			if err := rp.structFields(fn, inner, gv, pkg, &sub, pre, &subObs, path+f.Name()+"."); err != nil {
				return err
			}
			ts := types.TypeString(f.Type(), func(p *types.Package) string {
				if p == pkg {
					return ""
				}
				return p.Name()
			})
			*fields = append(*fields, fmt.Sprintf("%s: %s{%s}", f.Name(), ts, strings.Join(sub, ", ")))
			for _, o := range subObs {
				*observe = append(*observe, o)
			}
			continue
		}
		in, err := rp.buildInput(fn, f.Type(), gv, pkg)
		if err != nil {
			return err
		}
		*pre = append(*pre, in.decl)
		*fields = append(*fields, fmt.Sprintf("%s: %s", f.Name(), in.expr))
		// observe scalar / byte-slice fields after the call
		acc := goVar + "." + path + f.Name()
		if strings.Contains(goVar, "_") {
			acc = strings.SplitN(goVar, "_", 2)[0] + "." + path + f.Name()
		}
		switch ft := f.Type().Underlying().(type) {
		case *types.Basic:
			if !isFloatType(f.Type()) && !isStringType(f.Type()) {
				*observe = append(*observe, fmt.Sprintf(`obs["field:%s"] = fmt.Sprint(%s)`, fn, acc))
			}
		case *types.Slice:
			if b, ok := ft.Elem().Underlying().(*types.Basic); ok && b.Kind() == types.Uint8 {
				*observe = append(*observe, fmt.Sprintf(`obs["fbytes:%s"] = hex.EncodeToString([]byte(%s))`, fn, acc))
			}
		}
	}
	return nil
}

const replayHelpers = `
type vReader struct {
	eofWithData bool
	data   []byte
	pos    int
	chunk  int
	failAt int
	failed bool
	over   bool
	reads  int
}

func (r *vReader) Read(p []byte) (int, error) {
	r.reads++
	if r.failAt >= 0 && r.pos >= r.failAt {
		r.failed = true
		return 0, errors.New("verif: injected fault")
	}
	rem := len(r.data) - r.pos
	if len(p) > rem {
		r.over = true
	}
	if rem == 0 {
		if len(p) == 0 {
			return 0, nil
		}
		return 0, io.EOF
	}
	n := len(p)
	if n > rem {
		n = rem
	}
	if r.chunk > 0 && n > r.chunk {
		n = r.chunk
	}
	if r.failAt >= 0 && r.pos+n > r.failAt {
		n = r.failAt - r.pos
	}
	copy(p, r.data[r.pos:r.pos+n])
	r.pos += n
	if r.eofWithData && r.pos == len(r.data) {
		return n, io.EOF // io.Reader allows data together with end-of-stream
	}
	return n, nil
}

type vWriter struct {
	out    []byte
	writes int
	accept bool
	budget int
}

func (w *vWriter) Write(p []byte) (int, error) {
	w.writes++
	if w.accept {
		w.out = append(w.out, p...)
		return len(p), nil
	}
	n := len(p)
	if n > w.budget {
		n = w.budget
	}
	w.budget -= n
	w.out = append(w.out, p[:n]...)
	if n < len(p) || w.budget == 0 {
		return n, errors.New("verif: injected write fault")
	}
	return n, nil
}
`

// replayObligation: see file comment.
func replayObligation(eng *Engine, o *Obligation, model, repo, outDir string) (res *replayResult) {
	res = &replayResult{}
	defer func() {
		if r := recover(); r != nil {
			res.Note = fmt.Sprintf("replay aborted: %v", r)
		}
	}()
	c := o.ctx
	if c == nil || c.fn == nil || c.preEnv == nil || c.postEnv == nil || c.contract == nil {
		res.Note = "no replay driver for this obligation kind"
		return res
	}
	if o.Kind != "ensures" {
		res.Note = "replay drivers cover postconditions (ensures) only; obligation kind " + o.Kind
		return res
	}
	fn := c.fn
	if fn.Pkg == nil {
		res.Note = "function has no package"
		return res
	}
	pkg := fn.Pkg.Pkg
	rp := &replayer{eng: eng, o: o, c: c, outDir: outDir, repo: repo, timeout: 10}
	ct := c.contract
	sig := fn.Signature
	// prefer small inputs: bound stream / slice / string sizes, relaxing the bound if needed
	{
		type nt struct {
			name string
			t    types.Type
		}
		var vars []nt
		if ct.Recv != nil && sig.Recv() != nil {
			vars = append(vars, nt{ct.Recv.Name, sig.Recv().Type()})
		}
		for i, p := range ct.Params {
			vars = append(vars, nt{p.Name, sig.Params().At(i).Type()})
		}
		ok := false
		for _, bound := range []int{48, 1024, 16384} {
			var pins []*Term
			var addSize func(name string, t types.Type, depth int)
			addSize = func(name string, t types.Type, depth int) {
				var exprs []string
				switch u := t.Underlying().(type) {
				case *types.Interface:
					switch shortTypeKey(t) {
					case "io.Reader":
						exprs = append(exprs, fmt.Sprintf("%s.len - %s.pos <= %d && %s.pos >= 0", name, name, bound, name))
					case "io.Writer":
						exprs = append(exprs, fmt.Sprintf("%s.len <= 8 && %s.len >= 0", name, name))
					}
				case *types.Slice:
					exprs = append(exprs, fmt.Sprintf("len(%s) <= %d", name, bound))
				case *types.Basic:
					if isStringType(t) {
						exprs = append(exprs, fmt.Sprintf("len(%s) <= %d", name, bound))
					}
				case *types.Pointer:
					if st, ok := u.Elem().Underlying().(*types.Struct); ok && depth < 2 {
						for i := 0; i < st.NumFields(); i++ {
							addSize(name+"."+st.Field(i).Name(), st.Field(i).Type(), depth+1)
						}
					}
				case *types.Struct:
					if depth < 2 {
						for i := 0; i < u.NumFields(); i++ {
							addSize(name+"."+u.Field(i).Name(), u.Field(i).Type(), depth+1)
						}
					}
				}
				for _, x := range exprs {
					if e, err := ParseExpr(x); err == nil {
						if t, err := c.preEnv.evalClause(e); err == nil {
							pins = append(pins, t)
						}
					}
				}
			}
			for _, v := range vars {
				addSize(v.name, v.t, 0)
			}
			if _, sat := queryModel(eng, o, []*Term{Num(0)}, pins, outDir, 10); sat {
				rp.pins = pins
				ok = true
				break
			}
		}
		if !ok {
			res.Note = "no counterexample candidate with replayable input sizes"
			return res
		}
	}
	var inputs []*goInput
	var callArgs []string
	recvExpr := ""
	if ct.Recv != nil && sig.Recv() != nil {
		in, err := rp.buildInput(ct.Recv.Name, sig.Recv().Type(), "recv", pkg)
		if err != nil {
			res.Note = "inputs not constructible: " + err.Error()
			return res
		}
		inputs = append(inputs, in)
		recvExpr = in.expr
	}
	for i, p := range ct.Params {
		in, err := rp.buildInput(p.Name, sig.Params().At(i).Type(), fmt.Sprintf("a%d", i), pkg)
		if err != nil {
			res.Note = "inputs not constructible: " + err.Error()
			return res
		}
		inputs = append(inputs, in)
		callArgs = append(callArgs, in.expr)
	}
	// results
	var resNames, resObs []string
	for i := 0; i < sig.Results().Len(); i++ {
		rn := fmt.Sprintf("r%d", i)
		resNames = append(resNames, rn)
		cn := ct.Results[i].Name
		rt := sig.Results().At(i).Type()
		switch {
		case shortTypeKey(rt) == "error":
			resObs = append(resObs, fmt.Sprintf(`if %s == nil { obs["err:%s"] = "nil" } else if %s == io.EOF { obs["err:%s"] = "eof" } else { obs["err:%s"] = "err"; obs["errtext:%s"] = %s.Error() }`, rn, cn, rn, cn, cn, cn, rn))
		case isBoolType(rt):
			resObs = append(resObs, fmt.Sprintf(`obs["bool:%s"] = %s`, cn, rn))
		case isStringType(rt):
			resObs = append(resObs, fmt.Sprintf(`obs["str:%s"] = hex.EncodeToString([]byte(%s))`, cn, rn))
		case isFloatType(rt):
			resObs = append(resObs, fmt.Sprintf(`_ = %s`, rn))
		default:
			if _, _, ok := intInfo(rt); ok {
				resObs = append(resObs, fmt.Sprintf(`obs["int:%s"] = fmt.Sprint(%s)`, cn, rn))
			} else if sl, ok := rt.Underlying().(*types.Slice); ok {
				if b, ok := sl.Elem().Underlying().(*types.Basic); ok && b.Kind() == types.Uint8 {
					resObs = append(resObs, fmt.Sprintf(`if %s == nil { obs["nilslice:%s"] = true }; obs["rbytes:%s"] = hex.EncodeToString([]byte(%s))`, rn, cn, cn, rn))
				} else {
					resObs = append(resObs, fmt.Sprintf(`_ = %s`, rn))
				}
			} else if _, ok := rt.Underlying().(*types.Interface); ok {
				resObs = append(resObs, fmt.Sprintf(`if %s == nil { obs["dyn:%s"] = "nil" } else { obs["dyn:%s"] = fmt.Sprintf("%%T", %s); obs["dynval:%s"] = fmt.Sprintf("%%v", %s) }`, rn, cn, cn, rn, cn, rn))
			} else {
				resObs = append(resObs, fmt.Sprintf(`_ = %s`, rn))
			}
		}
	}
	call := fn.Name() + "(" + strings.Join(callArgs, ", ") + ")"
	if recvExpr != "" {
		call = recvExpr + "." + call
	}
	if len(resNames) > 0 {
		call = strings.Join(resNames, ", ") + " := " + call
	}
	var body strings.Builder
	for _, in := range inputs {
		body.WriteString("\t" + in.decl + "\n")
	}
	body.WriteString("\t" + call + "\n")
	for _, s := range resObs {
		body.WriteString("\t" + s + "\n")
	}
	for _, in := range inputs {
		for _, s := range in.observe {
			body.WriteString("\t" + s + "\n")
		}
	}
	testName := "TestVerifReplay"
	src := "package " + pkg.Name() + "\n\nimport (\n\t\"encoding/hex\"\n\t\"encoding/json\"\n\t\"errors\"\n\t\"fmt\"\n\t\"io\"\n\t\"os\"\n\t\"testing\"\n)\n\nvar _ = hex.EncodeToString\nvar _ = errors.New\nvar _ = fmt.Sprint\nvar _ io.Reader\n" + replayHelpers +
		"\nfunc replayOnce(chunk int, budget int, eofWithData bool, fault bool) (obs map[string]interface{}) {\n\tobs = map[string]interface{}{}\n\tdefer func() {\n\t\tif p := recover(); p != nil {\n\t\t\tobs[\"panic\"] = fmt.Sprint(p)\n\t\t}\n\t}()\n" + body.String() + "\treturn obs\n}\n\n" +
		"func " + testName + "(t *testing.T) {\n\tvar all []map[string]interface{}\n\tfor _, fault := range []bool{false, true} {\n\t\tfor _, eofWithData := range []bool{false, true} {\n\t\t\tfor _, chunk := range []int{1, 0} {\n\t\t\t\tobs := replayOnce(chunk, 1<<30, eofWithData, fault)\n\t\t\t\tobs[\"mode\"] = fmt.Sprintf(\"chunk=%d eofWithData=%v fault=%v\", chunk, eofWithData, fault)\n\t\t\t\tall = append(all, obs)\n\t\t\t}\n\t\t}\n\t}\n\tdata, _ := json.Marshal(all)\n\tos.Stdout.WriteString(\"VERIF-OBS \" + string(data) + \"\\n\")\n}\n"
	res.Test = src
	// run with an overlay
	dir := ""
	for _, p := range eng.pkgs {
		if p.Types == pkg && len(p.GoFiles) > 0 {
			dir = filepath.Dir(p.GoFiles[0])
		}
	}
	if dir == "" {
		// dependency package: derive from the import path
		dir = filepath.Join(repo, strings.TrimPrefix(pkg.Path(), "github.com/lugu/qiloop/"))
	}
	tmp, err := os.MkdirTemp("", "verif-replay")
	if err != nil {
		res.Note = err.Error()
		return res
	}
	defer os.RemoveAll(tmp)
	tf := filepath.Join(tmp, "zz_verif_replay_test.go")
	os.WriteFile(tf, []byte(src), 0o644)
	ov, _ := json.Marshal(map[string]interface{}{"Replace": map[string]string{filepath.Join(dir, "zz_verif_replay_test.go"): tf}})
	ovf := filepath.Join(tmp, "overlay.json")
	os.WriteFile(ovf, ov, 0o644)
	ctx, cancel := context.WithTimeout(context.Background(), 120*time.Second)
	defer cancel()
	cmd := exec.CommandContext(ctx, "go", "test", "-overlay", ovf, "-v", "-vet=off", "-count=1", "-timeout", "60s", "-run", "^"+testName+"$", ".")
	cmd.Dir = dir
	cmd.Env = append(os.Environ(), "GOFLAGS=-mod=mod", "GOPROXY=off", "GOSUMDB=off", "GOTOOLCHAIN=local")
	outb, _ := cmd.CombinedOutput()
	out := string(outb)
	i := strings.Index(out, "VERIF-OBS ")
	if i < 0 {
		res.Note = "replay test produced no observation: " + trunc(out, 600)
		return res
	}
	line := out[i+len("VERIF-OBS "):]
	if j := strings.Index(line, "\n"); j >= 0 {
		line = line[:j]
	}
	var all []map[string]interface{}
	if err := json.Unmarshal([]byte(line), &all); err != nil {
		res.Note = "cannot parse observations: " + err.Error()
		return res
	}
	res.Shape = "real function called with model inputs (scripted reader/recording writer)"
	for run, obs := range all {
		if p, ok := obs["panic"]; ok {
			res.Reproduced = true
			res.Observed = fmt.Sprintf("run %d: panic: %v", run, p)
			res.Inputs = inputsSummary(inputs)
			return res
		}
		facts, desc := rp.observationFacts(obs, ct, sig)
		// can the clause hold given inputs (pinned) and observations?
		q := &Obligation{Name: o.Name + "/replay", Fn: o.Fn, ctx: &FnCtx{eng: eng, facts: nil}, PC: True, Goal: Not(o.Goal), NFacts: 0}
		q.Extra = append(append([]*Term(nil), rp.pins...), facts...)
		file := filepath.Join(outDir, fmt.Sprintf("replay_decide_%d.smt2", run))
		os.WriteFile(file, []byte(q.script(eng, false)), 0o644)
		status, _, _ := runSolver(solvers[0], file, 6)
		if status == "unsat" {
			res.Reproduced = true
			res.Observed = fmt.Sprintf("run %d (%v): %s — the clause cannot hold for these inputs and observed outputs", run, obs["mode"], desc)
			res.Inputs = inputsSummary(inputs)
			return res
		}
		res.Observed += fmt.Sprintf("run %d: %s (clause not refuted: %s); ", run, desc, status)
	}
	res.Inputs = inputsSummary(inputs)
	res.Note = "the real code did not violate the clause on the model's inputs (model was spurious in its uninterpreted/heap part, or the violation needs state that is not observable)"
	return res
}

func inputsSummary(ins []*goInput) string {
	var s []string
	for _, in := range ins {
		s = append(s, strings.TrimSpace(in.decl))
	}
	return trunc(strings.Join(s, "; "), 3000)
}

func hexBytes(v interface{}) []byte {
	s, _ := v.(string)
	out := make([]byte, len(s)/2)
	for i := range out {
		fmt.Sscanf(s[2*i:2*i+2], "%02x", &out[i])
	}
	return out
}

// observationFacts turns the observations into assertions over the post-state terms.
func (rp *replayer) observationFacts(obs map[string]interface{}, ct *Contract, sig *types.Signature) ([]*Term, string) {
	var facts []*Term
	var desc []string
	add := func(expr string) {
		t, err := rp.evalPost(expr)
		if err != nil {
			rp.notes = append(rp.notes, expr+": "+err.Error())
			return
		}
		facts = append(facts, t)
	}
	for k, v := range obs {
		parts := strings.SplitN(k, ":", 2)
		if len(parts) != 2 {
			continue
		}
		kind, name := parts[0], parts[1]
		switch kind {
		case "err":
			switch v {
			case "nil":
				add(name + " == nil")
			case "eof":
				add(name + " == io.EOF")
			default:
				add(name + " != nil")
			}
			desc = append(desc, fmt.Sprintf("%s=%v", name, v))
		case "bool":
			if v == true {
				add(name)
			} else {
				add("!" + name)
			}
			desc = append(desc, fmt.Sprintf("%s=%v", name, v))
		case "int":
			add(fmt.Sprintf("%s == %v", name, v))
			desc = append(desc, fmt.Sprintf("%s=%v", name, v))
		case "field":
			add(fmt.Sprintf("%s == %v", name, v))
		case "str", "rbytes", "fbytes", "bytes":
			b := hexBytes(v)
			if len(b) <= 4096 {
				add(fmt.Sprintf("len(%s) == %d", name, len(b)))
				for i, x := range b {
					add(fmt.Sprintf("%s[%d] == %d", name, i, x))
				}
			}
			desc = append(desc, fmt.Sprintf("%s=%x", name, trimBytes(b)))
		case "nilslice":
			add(name + " == nil")
		case "rpos":
			n, _ := v.(float64)
			add(fmt.Sprintf("%s.pos == old(%s.pos) + %d", name, name, int(n)))
			desc = append(desc, fmt.Sprintf("consumed=%d", int(n)))
		case "rshort":
			if v == true {
				add(name + ".short")
			} else {
				add(fmt.Sprintf("%s.short == old(%s.short)", name, name))
			}
		case "wout":
			b := hexBytes(v)
			add(fmt.Sprintf("%s.len == %d", name, len(b)))
			if len(b) <= 4096 {
				for i, x := range b {
					add(fmt.Sprintf("%s.data[%d] == %d", name, i, x))
				}
			}
			desc = append(desc, fmt.Sprintf("written=%x", trimBytes(b)))
		case "wwrites":
			n, _ := v.(float64)
			add(fmt.Sprintf("%s.writes == old(%s.writes) + %d", name, name, int(n)))
			desc = append(desc, fmt.Sprintf("Write calls=%d", int(n)))
		case "dyn":
			if v == "nil" {
				add(name + " == nil")
			} else {
				add(name + " != nil")
				// dynamic type: match by short type name
				for key, id := range typeTags {
					t := typeTagTypes[id]
					if shortTypeKey(t) == v {
						_ = key
						func() {
							defer func() { recover() }()
							e, _ := ParseExpr(name)
							val := rp.c.postEnv.eval(e)
							if val.K == VIface {
								facts = append(facts, Eq(val.Tag, Num(id)))
							}
						}()
					}
				}
			}
			desc = append(desc, fmt.Sprintf("%s has dynamic type %v", name, v))
		}
	}
	return facts, strings.Join(desc, ", ")
}

func trimBytes(b []byte) []byte {
	if len(b) > 48 {
		return b[:48]
	}
	return b
}

// ---- bounded stand-ins (DESIGN.md §7 C07): functions outside the verifier's reach are exercised
// up to a stated bound; always labelled "bounded", never counted in `discharged`.

const parseStandinTest = `package signature

import (
	"fmt"
	"os"
	"strings"
	"testing"
	"time"
)

// TestVerifParseStandin: signature.Parse (goparsec combinators) is not under contract; bounded check.
// timedParse: time of one Parse call; when it is over budget the call is repeated twice more and
// the minimum is taken, so that a descheduled test process is not mistaken for a slow parse.
func timedParse(sig string, budget time.Duration) time.Duration {
	best := time.Duration(1 << 62)
	for try := 0; try < 3; try++ {
		t0 := time.Now()
		func() {
			defer func() {
				if p := recover(); p != nil {
					fmt.Fprintf(os.Stdout, "VERIF-STANDIN-FAIL panic on %%q: %%v\n", sig, p)
				}
			}()
			Parse(sig)
		}()
		if el := time.Since(t0); el < best {
			best = el
		}
		if best <= budget {
			break
		}
	}
	return best
}

func TestVerifParseStandin(t *testing.T) {
	alphabet := "bcCwWiIlLfdsmovrX[](){}<>,a"
	maxLen := %d
	maxDepth := %d
	count := 0
	var rec func(prefix string)
	rec = func(prefix string) {
		func() {
			defer func() {
				if p := recover(); p != nil {
					fmt.Fprintf(os.Stdout, "VERIF-STANDIN-FAIL panic on %%q: %%v\n", prefix, p)
				}
			}()
			Parse(prefix)
			count++
		}()
		if len(prefix) >= maxLen {
			return
		}
		for i := 0; i < len(alphabet); i++ {
			rec(prefix + alphabet[i:i+1])
		}
	}
	rec("")
	// nesting sweep: linear-time budget per depth for every bracket kind
	kinds := [][2]string{{"(", ")"}, {"[", "]"}, {"{s", "}"}, {"((", "))"}}
	for _, k := range kinds {
		for d := 1; d <= maxDepth; d++ {
			sig := strings.Repeat(k[0], d) + "i" + strings.Repeat(k[1], d)
			el := timedParse(sig, 200*time.Millisecond+time.Duration(d)*5*time.Millisecond)
			count++
			if el > 200*time.Millisecond+time.Duration(d)*5*time.Millisecond {
				fmt.Fprintf(os.Stdout, "VERIF-STANDIN-FAIL nesting depth %%d of %%q took %%v (budget 200ms+5ms*depth): super-linear\n", d, k[0], el)
				break
			}
		}
	}
	// annotation shapes: every combination of a member list, a struct annotation (well-formed or
	// not) and a wrapper must return (value or error) without panic
	for _, types := range []string{"", "i", "is", "(i)", "[s]i"} {
		for _, ann := range []string{"", "<>", "<a>", "<a,b>", "<a,b,c>", "<a,b,c,d>", "<,>", "<a,>", "<,a>", "<a", "a>", "<a,b", "<a b>"} {
			for _, wrap := range [][2]string{{"", ""}, {"[", "]"}, {"{s", "}"}, {"(", ")"}, {"(", ")<a,b>"}} {
				sig := wrap[0] + "(" + types + ")" + ann + wrap[1]
				func() {
					defer func() {
						if p := recover(); p != nil {
							fmt.Fprintf(os.Stdout, "VERIF-STANDIN-FAIL panic on %%q: %%v\n", sig, p)
						}
					}()
					Parse(sig)
					count++
				}()
			}
		}
	}
	// malformed nestings (unclosed / unopened / truncated): failing parses must stay linear too
	opens := []string{"(", "[", "{", "{s", "[(", "([", "({s", "((i)<"}
	for _, o := range opens {
		for d := 1; d <= maxDepth+8; d++ {
			for _, tail := range []string{"", "i", "i)", "<a,b"} {
				sig := strings.Repeat(o, d) + tail
				el := timedParse(sig, 200*time.Millisecond+time.Duration(d)*5*time.Millisecond)
				count++
				if el > 200*time.Millisecond+time.Duration(d)*5*time.Millisecond {
					fmt.Fprintf(os.Stdout, "VERIF-STANDIN-FAIL malformed nesting depth %%d of %%q (tail %%q) took %%v (budget 200ms+5ms*depth): super-linear\n", d, o, tail, el)
					d = 1 << 20
					break
				}
			}
		}
	}
	fmt.Fprintf(os.Stdout, "VERIF-STANDIN-OK cases=%%d\n", count)
}
`


const idlStandinTest = `package idl

import (
	"fmt"
	"os"
	"strings"
	"testing"
	"time"
)

// TestVerifIDLStandin: idl.ParseIDL (goparsec combinators plus type resolution) is not under
// contract; bounded check. Every case is announced before it runs, so that a fatal error of the
// runtime (stack overflow, out of memory), which no recover() can intercept, still names its input.
func TestVerifIDLStandin(t *testing.T) {
	base := []string{
		"package p\ninterface I\n\tfn f(a: int32) -> str //uid:100\n\tsig s(a: uint32, b: str) //uid:101\n\tprop p(v: float32) //uid:102\nend\n",
		"package p\nstruct A\n\ta: int32\n\tb: Vec<str>\n\tc: Map<str,int32>\nend\ninterface I\n\tfn f(x: A) -> Vec<A>\nend\n",
		"package p\nstruct A\n\ta: B\nend\nstruct B\n\tb: Vec<Map<str,Tuple<int32,str>>>\nend\ninterface I\n\tfn f(x: A) -> B\n\tfn g() -> obj\n\tfn h(v: any)\nend\n",
		"package p\nenum E\n\tconst a = 1\n\tconst b = 2\nend\ninterface I\n\tfn f(e: E)\nend\n",
	}
	var cases []string
	cases = append(cases, base...)
	// type references that do not resolve to a finite type: self, mutual and longer cycles, a cycle
	// through a container, an unknown name, a struct named like a basic type
	cases = append(cases,
		"package p\nstruct A\n\ta: A\nend\ninterface I\n\tfn f(x: A)\nend\n",
		"package p\nstruct A\n\ta: B\nend\nstruct B\n\tb: A\nend\ninterface I\n\tfn f(x: A)\nend\n",
		"package p\nstruct A\n\ta: B\nend\nstruct B\n\tb: C\nend\nstruct C\n\tc: A\nend\ninterface I\n\tfn f() -> C\nend\n",
		"package p\nstruct A\n\ta: Vec<A>\nend\ninterface I\n\tsig s(x: A)\nend\n",
		"package p\nstruct A\n\ta: Map<str,A>\nend\ninterface I\n\tprop q(x: A)\nend\n",
		"package p\ninterface I\n\tfn f(x: Nowhere) -> Nowhere\nend\n",
		"package p\nstruct str\n\ta: str\nend\ninterface I\n\tfn f(x: str)\nend\n",
		"package p\ninterface I\n\tfn f(x: I) -> I\nend\n",
	)
	// every base text with one line deleted, one line duplicated, or truncated after any line
	for _, b := range base {
		lines := strings.SplitAfter(b, "\n")
		for i := range lines {
			cases = append(cases, strings.Join(append(append([]string{}, lines[:i]...), lines[i+1:]...), ""))
			cases = append(cases, strings.Join(append(append(append([]string{}, lines[:i+1]...), lines[i]), lines[i+1:]...), ""))
			cases = append(cases, strings.Join(lines[:i], ""))
		}
	}
	// every identifier-like token of every base text with an odd suffix or prefix (names that the
	// token rules accept but later stages may not expect), and replaced by a punctuation token
	isIdent := func(c byte) bool { return c == '_' || (c >= 'a' && c <= 'z') || (c >= 'A' && c <= 'Z') || (c >= '0' && c <= '9') }
	for _, b := range base {
		for i := 0; i < len(b); {
			if !isIdent(b[i]) {
				i++
				continue
			}
			j := i
			for j < len(b) && isIdent(b[j]) {
				j++
			}
			for _, suf := range []string{".", "-", "_", "..", ".-", "0", "<", ">"} {
				cases = append(cases, b[:j]+suf+b[j:])
			}
			for _, pre := range []string{".", "-", "_", "0", "<"} {
				cases = append(cases, b[:i]+pre+b[i:])
			}
			for _, rep := range []string{"", ".", ",", ":", "(", ")", "->", "//", "end", "Vec<", "Map<", ">"} {
				cases = append(cases, b[:i]+rep+b[j:])
			}
			i = j
		}
	}
	// container nesting sweep: linear-time budget
	maxDepth := %d
	for d := 1; d <= maxDepth; d++ {
		cases = append(cases, "package p\ninterface I\n\tfn f(x: "+strings.Repeat("Vec<", d)+"int32"+strings.Repeat(">", d)+")\nend\n")
		cases = append(cases, "package p\ninterface I\n\tfn f(x: "+strings.Repeat("Vec<", d)+"int32)\nend\n")
	}
	for i, c := range cases {
		fmt.Fprintf(os.Stdout, "VERIF-STANDIN-CASE %%d %%q\n", i, c)
		t0 := time.Now()
		func() {
			defer func() {
				if p := recover(); p != nil {
					fmt.Fprintf(os.Stdout, "VERIF-STANDIN-FAIL panic on %%q: %%v\n", c, p)
				}
			}()
			metas, err := ParseIDL(strings.NewReader(c))
			if err == nil {
				// a package that is returned must be usable: its signatures can be asked for
				for _, m := range metas {
					_ = m.JSON()
				}
			}
		}()
		if el := time.Since(t0); el > 2*time.Second {
			fmt.Fprintf(os.Stdout, "VERIF-STANDIN-FAIL %%q took %%v\n", c, el)
		}
	}
	// size sweep: one declaration with n members; the time for 16 times more members must stay within
	// a generous linear budget (400 ms + 40 x the time for n), minimum of three tries each
	sized := func(kind string, n int) string {
		var b strings.Builder
		b.WriteString("package p\n" + kind + " Big\n")
		for i := 0; i < n; i++ {
			if kind == "struct" {
				fmt.Fprintf(&b, "\tmember%%d: int32\n", i)
			} else {
				fmt.Fprintf(&b, "\tconst value%%d = %%d\n", i, i)
			}
		}
		b.WriteString("end\n")
		return b.String()
	}
	timeOf := func(text string) time.Duration {
		best := time.Duration(1 << 62)
		for try := 0; try < 3; try++ {
			t0 := time.Now()
			func() {
				defer func() {
					if p := recover(); p != nil {
						fmt.Fprintf(os.Stdout, "VERIF-STANDIN-FAIL panic on a %%d byte declaration: %%v\n", len(text), p)
					}
				}()
				ParseIDL(strings.NewReader(text))
			}()
			if el := time.Since(t0); el < best {
				best = el
			}
		}
		return best
	}
	for _, kind := range []string{"struct", "enum"} {
		small, large := 2000, 32000
		fmt.Fprintf(os.Stdout, "VERIF-STANDIN-CASE size sweep %%s %%d/%%d members\n", kind, small, large)
		ts := timeOf(sized(kind, small))
		tl := timeOf(sized(kind, large))
		if tl > 400*time.Millisecond+40*ts {
			fmt.Fprintf(os.Stdout, "VERIF-STANDIN-FAIL one %%s with %%d members took %%v, with %%d members %%v (budget 400ms + 40x): super-linear\n", kind, small, ts, large, tl)
		}
	}
	fmt.Fprintf(os.Stdout, "VERIF-STANDIN-OK cases=%%d\n", len(cases)+4)
}
`

type standinSpec struct {
	name, pkgDir, src, testName, function, bound, obligation string
}

func runBoundedStandins(prop, tier, repo, verif string, seed int, violate func(string, bool), writeReplay func(string, map[string]interface{}) string) interface{} {
	if prop != "C07" {
		return nil
	}
	maxLen, maxDepth := 3, 16
	if tier == "thorough" {
		maxLen, maxDepth = 4, 22
	}
	specs := []standinSpec{
		{"bounded_signature.Parse", filepath.Join("meta", "signature"), fmt.Sprintf(parseStandinTest, maxLen, maxDepth), "TestVerifParseStandin",
			"meta/signature.Parse (goparsec combinator tree, outside the verifier's reach)",
			fmt.Sprintf("every string of length <= %d over a 27-character signature alphabet, and 325 tuple/struct annotation shapes (member list x annotation x wrapper), must return without panic; for each bracket kind, well-formed nesting depth 1..%d and malformed (unclosed / truncated) nestings up to depth %d+8 must return within 200ms + 5ms*depth", maxLen, maxDepth, maxDepth),
			"bounded/meta/signature.Parse"},
		{"bounded_idl.ParseIDL", filepath.Join("meta", "idl"), fmt.Sprintf(idlStandinTest, maxDepth), "TestVerifIDLStandin",
			"meta/idl.ParseIDL (goparsec combinator tree plus type resolution, outside the verifier's reach)",
			fmt.Sprintf("4 well-formed IDL texts (interfaces, structs, enums, containers) and each of them with one line deleted, one line duplicated, or cut after any line, and with every identifier-like token given one of 8 odd suffixes / 5 odd prefixes or replaced by one of 12 punctuation / keyword tokens; 8 texts whose type references do not resolve to a finite type (self / mutual / longer cycles, cycles through a container, unknown names, a struct named like a basic type, an interface used as a type); container nestings of depth 1..%d, closed and unclosed: each must return a package or an error without panic or fatal error within 2 s, and a returned package must be printable; size sweep: one struct / one enum with 2000 and with 32000 members, the larger within 400 ms + 40 x the time of the smaller", maxDepth),
			"bounded/meta/idl.ParseIDL"},
	}
	var all []interface{}
	for _, sp := range specs {
		all = append(all, runStandin(sp, repo, violate, writeReplay))
	}
	return all
}

func runStandin(sp standinSpec, repo string, violate func(string, bool), writeReplay func(string, map[string]interface{}) string) interface{} {
	src := sp.src
	dir := filepath.Join(repo, sp.pkgDir)
	tmp, err := os.MkdirTemp("", "verif-standin")
	if err != nil {
		return map[string]interface{}{"error": err.Error()}
	}
	defer os.RemoveAll(tmp)
	tf := filepath.Join(tmp, "zz_verif_standin_test.go")
	os.WriteFile(tf, []byte(src), 0o644)
	ov, _ := json.Marshal(map[string]interface{}{"Replace": map[string]string{filepath.Join(dir, "zz_verif_standin_test.go"): tf}})
	ovf := filepath.Join(tmp, "overlay.json")
	os.WriteFile(ovf, ov, 0o644)
	ctx, cancel := context.WithTimeout(context.Background(), 300*time.Second)
	defer cancel()
	cmd := exec.CommandContext(ctx, "go", "test", "-overlay", ovf, "-v", "-vet=off", "-count=1", "-timeout", "240s", "-run", "^"+sp.testName+"$", ".")
	cmd.Dir = dir
	cmd.Env = append(os.Environ(), "GOFLAGS=-mod=mod", "GOPROXY=off", "GOSUMDB=off", "GOTOOLCHAIN=local")
	t0 := time.Now()
	outb, _ := cmd.CombinedOutput()
	out := string(outb)
	res := map[string]interface{}{
		"label":    "bounded",
		"function": sp.function,
		"bound":    sp.bound,
		"seconds":  time.Since(t0).Seconds(),
	}
	var fails []string
	lastCase := ""
	for _, l := range strings.Split(out, "\n") {
		if strings.HasPrefix(l, "VERIF-STANDIN-CASE ") {
			lastCase = strings.TrimPrefix(l, "VERIF-STANDIN-CASE ")
		}
		if strings.HasPrefix(l, "VERIF-STANDIN-FAIL") {
			fails = append(fails, strings.TrimPrefix(l, "VERIF-STANDIN-FAIL "))
		}
		if strings.HasPrefix(l, "VERIF-STANDIN-OK") {
			res["result"] = strings.TrimPrefix(l, "VERIF-STANDIN-OK ")
		}
	}
	if _, ok := res["result"]; !ok && len(fails) == 0 {
		why := "stand-in test did not complete"
		for _, l := range strings.Split(out, "\n") {
			if strings.HasPrefix(l, "fatal error:") || strings.HasPrefix(l, "panic:") {
				why = l
				break
			}
		}
		if lastCase != "" {
			fails = append(fails, why+" on case "+lastCase)
		} else {
			fails = append(fails, why+": "+trunc(out, 400))
		}
	}
	if len(fails) > 0 {
		res["failures"] = fails
		p := writeReplay(sp.name, map[string]interface{}{"status": "bounded-stand-in-failed", "obligation": sp.obligation,
			"detail": fails, "test": src, "inputs": fails[0]})
		violate(p, false)
	}
	return res
}

var _ = json.Marshal
