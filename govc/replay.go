package main

func replayObligation(eng *Engine, o *Obligation, model, repo, outDir string) *replayResult { return nil }

func runBoundedStandins(prop, tier, repo, verif string, seed int, violate func(string, bool), writeReplay func(string, map[string]interface{}) string) interface{} {
	return nil
}
