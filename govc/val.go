package main

// Symbolic values, type flattening, heap model.

import (
	"fmt"
	"go/types"
	"math/big"
	"strings"

	"golang.org/x/tools/go/ssa"
)

type VKind int

const (
	VScalar VKind = iota // X: Int or Bool term (ints, bools, pointers, strings, maps, chans, funcs)
	VStruct              // Fs
	VSlice               // Ref, Off, Len, Cap
	VIface               // Tag, Box
	VTuple               // Fs
	VArr                 // ghost array value: X is an array-sorted term
)

type Val struct {
	K    VKind
	T    types.Type // Go type; nil for ghost/mathematical values
	X    *Term
	Fs   []*Val
	Ref  *Term
	Off  *Term
	Len  *Term
	Cap  *Term
	Tag  *Term
	Box  *Term
	Addr *Addr    // static address description for pointer values (optional)
	Fn   *FuncVal // statically known function value (optional)
	Guard *guardRef // value was read from a lock-protected field: operations on its contents need the lock
}

type guardRef struct {
	mutexID *Term
	field   string
	rw      bool
	owner   *Term      // object holding the protected field
	ownerT  types.Type // its struct type
	fieldIx int
}

type AddrKind int

const (
	ACell  AddrKind = iota // local, non-escaping Alloc; Path selects nested struct fields
	AObj                   // heap object at Ref (struct: its fields; other: deref map)
	AField                 // field Idx of struct ST at Ref
	AElem                  // element Idx of backing array Ref, element type ET
	AGlobal
)

type Addr struct {
	Kind   AddrKind
	Cell   *ssa.Alloc
	Path   []int
	Ref    *Term
	ST     *types.Struct
	STName string
	Idx    int
	IdxT   *Term
	ET     types.Type
	Glob   *ssa.Global
	Guard  *guardRef
}

type FuncVal struct {
	Fn       *ssa.Function
	Bindings []*Val
}

func scalar(t types.Type, x *Term) *Val { return &Val{K: VScalar, T: t, X: x} }
func mathInt(x *Term) *Val             { return &Val{K: VScalar, X: x} }
func mathBool(x *Term) *Val            { return &Val{K: VScalar, X: x} }

func (v *Val) String() string {
	switch v.K {
	case VScalar, VArr:
		return v.X.String()
	case VSlice:
		return fmt.Sprintf("slice(%s,%s,%s,%s)", v.Ref, v.Off, v.Len, v.Cap)
	case VIface:
		return fmt.Sprintf("iface(%s,%s)", v.Tag, v.Box)
	default:
		var s []string
		for _, f := range v.Fs {
			s = append(s, f.String())
		}
		return "{" + strings.Join(s, ",") + "}"
	}
}

// ---- integer type helpers

func intInfo(t types.Type) (bits int, signed bool, ok bool) {
	b, isB := t.Underlying().(*types.Basic)
	if !isB {
		return 0, false, false
	}
	switch b.Kind() {
	case types.Int8:
		return 8, true, true
	case types.Int16:
		return 16, true, true
	case types.Int32:
		return 32, true, true
	case types.Int64, types.Int:
		return 64, true, true
	case types.Uint8:
		return 8, false, true
	case types.Uint16:
		return 16, false, true
	case types.Uint32:
		return 32, false, true
	case types.Uint64, types.Uint, types.Uintptr:
		return 64, false, true
	case types.UntypedInt, types.UntypedRune:
		return 0, true, true
	}
	return 0, false, false
}

var maxInt64 = new(big.Int).Sub(new(big.Int).Lsh(big.NewInt(1), 63), big.NewInt(1))

func pow2(n int) *big.Int { return new(big.Int).Lsh(big.NewInt(1), uint(n)) }

func intRange(bits int, signed bool) (lo, hi *big.Int) {
	if signed {
		return new(big.Int).Neg(pow2(bits - 1)), new(big.Int).Sub(pow2(bits-1), big.NewInt(1))
	}
	return big.NewInt(0), new(big.Int).Sub(pow2(bits), big.NewInt(1))
}

func inRange(x *Term, bits int, signed bool) *Term {
	lo, hi := intRange(bits, signed)
	return And(Le(NumBig(lo), x), Le(x, NumBig(hi)))
}

// wrap makes Go's modular arithmetic explicit.
func wrap(x *Term, bits int, signed bool) *Term {
	if bits == 0 {
		return x
	}
	lo, hi := intRange(bits, signed)
	if x.IsNum() {
		n := new(big.Int).Mod(x.NumVal(), pow2(bits))
		if signed && n.Cmp(hi) > 0 {
			n.Sub(n, pow2(bits))
		}
		return NumBig(n)
	}
	m := Mod(x, NumBig(pow2(bits)))
	var w *Term
	if signed {
		w = Ite(Le(m, NumBig(hi)), m, Sub(m, NumBig(pow2(bits))))
	} else {
		w = m
	}
	return Ite(And(Le(NumBig(lo), x), Le(x, NumBig(hi))), x, w)
}

// ---- flattening of Go types into SMT components

type comp struct {
	suffix string
	sort   *Sort
}

func isBoolType(t types.Type) bool {
	b, ok := t.Underlying().(*types.Basic)
	return ok && (b.Kind() == types.Bool || b.Kind() == types.UntypedBool)
}

func isStringType(t types.Type) bool {
	b, ok := t.Underlying().(*types.Basic)
	return ok && (b.Kind() == types.String || b.Kind() == types.UntypedString)
}

func isFloatType(t types.Type) bool {
	b, ok := t.Underlying().(*types.Basic)
	return ok && b.Info()&types.IsFloat != 0
}

// comps lists the SMT components of a non-struct type.
// opaque types: library structs that the model treats as tokens (one integer id) whose behaviour
// is given only by assumed contracts and ghost fields.
func isOpaque(t types.Type) bool {
	switch shortTypeKey(t) {
	case "reflect.Value", "reflect.StructField", "reflect.Method":
		return true
	}
	return false
}

func comps(t types.Type) []comp {
	if isOpaque(t) {
		return []comp{{"", SInt}}
	}
	switch u := t.Underlying().(type) {
	case *types.Basic:
		if isBoolType(t) {
			return []comp{{"", SBool}}
		}
		return []comp{{"", SInt}}
	case *types.Slice:
		return []comp{{"#ref", SInt}, {"#off", SInt}, {"#len", SInt}, {"#cap", SInt}}
	case *types.Interface:
		return []comp{{"#tag", SInt}, {"#box", SInt}}
	case *types.Struct:
		var cs []comp
		for i := 0; i < u.NumFields(); i++ {
			for _, c := range comps(u.Field(i).Type()) {
				cs = append(cs, comp{"." + u.Field(i).Name() + c.suffix, c.sort})
			}
		}
		return cs
	case *types.Tuple:
		var cs []comp
		for i := 0; i < u.Len(); i++ {
			for _, c := range comps(u.At(i).Type()) {
				cs = append(cs, comp{fmt.Sprintf(".%d%s", i, c.suffix), c.sort})
			}
		}
		return cs
	default: // pointer, map, chan, func, array-by-value (unsupported as value)
		return []comp{{"", SInt}}
	}
}

func flatten(v *Val) []*Term {
	switch v.K {
	case VScalar, VArr:
		return []*Term{v.X}
	case VSlice:
		return []*Term{v.Ref, v.Off, v.Len, v.Cap}
	case VIface:
		return []*Term{v.Tag, v.Box}
	default:
		var out []*Term
		for _, f := range v.Fs {
			out = append(out, flatten(f)...)
		}
		return out
	}
}

// unflatten builds a value of type t from components (consumes from ts, returns rest).
func unflatten(t types.Type, ts []*Term) (*Val, []*Term) {
	if isOpaque(t) {
		return &Val{K: VScalar, T: t, X: ts[0]}, ts[1:]
	}
	switch u := t.Underlying().(type) {
	case *types.Slice:
		return &Val{K: VSlice, T: t, Ref: ts[0], Off: ts[1], Len: ts[2], Cap: ts[3]}, ts[4:]
	case *types.Interface:
		return &Val{K: VIface, T: t, Tag: ts[0], Box: ts[1]}, ts[2:]
	case *types.Struct:
		v := &Val{K: VStruct, T: t}
		for i := 0; i < u.NumFields(); i++ {
			var f *Val
			f, ts = unflatten(u.Field(i).Type(), ts)
			v.Fs = append(v.Fs, f)
		}
		return v, ts
	case *types.Tuple:
		v := &Val{K: VTuple, T: t}
		for i := 0; i < u.Len(); i++ {
			var f *Val
			f, ts = unflatten(u.At(i).Type(), ts)
			v.Fs = append(v.Fs, f)
		}
		return v, ts
	default:
		return &Val{K: VScalar, T: t, X: ts[0]}, ts[1:]
	}
}

// freshVal returns an arbitrary value of type t with its type invariants as facts.
func freshVal(t types.Type, hint string) (*Val, []*Term) {
	cs := comps(t)
	ts := make([]*Term, len(cs))
	for i, c := range cs {
		ts[i] = Fresh(hint+c.suffix, c.sort)
	}
	v, _ := unflatten(t, ts)
	return v, typeInv(v)
}

// typeInv returns the facts every value of the type satisfies (ranges, slice shape).
func typeInv(v *Val) []*Term {
	var out []*Term
	switch v.K {
	case VScalar:
		if v.T == nil {
			return nil
		}
		if bits, signed, ok := intInfo(v.T); ok && bits > 0 {
			out = append(out, inRange(v.X, bits, signed))
		} else if isStringType(v.T) {
			// slen >= 0 is a global axiom
		} else if v.X.S == SInt {
			switch v.T.Underlying().(type) {
			case *types.Pointer, *types.Map, *types.Chan, *types.Signature:
				// refs are unconstrained integers; nil == 0
			}
		}
	case VSlice:
		out = append(out, Le(Num(0), v.Off), Le(Num(0), v.Len), Le(v.Len, v.Cap), Le(Num(0), v.Ref),
			Implies(Eq(v.Ref, Num(0)), Eq(v.Cap, Num(0))), Le(v.Cap, NumBig(maxInt64)), Le(v.Off, NumBig(maxInt64)))
	case VIface:
		out = append(out, Implies(Eq(v.Tag, Num(0)), Eq(v.Box, Num(0))))
	case VStruct, VTuple:
		for _, f := range v.Fs {
			out = append(out, typeInv(f)...)
		}
	}
	return out
}

func zeroVal(t types.Type) *Val {
	if isOpaque(t) {
		return scalar(t, Num(0))
	}
	switch u := t.Underlying().(type) {
	case *types.Basic:
		if isBoolType(t) {
			return scalar(t, False)
		}
		if isStringType(t) {
			return scalar(t, strLit(""))
		}
		return scalar(t, Num(0))
	case *types.Slice:
		return &Val{K: VSlice, T: t, Ref: Num(0), Off: Num(0), Len: Num(0), Cap: Num(0)}
	case *types.Interface:
		return &Val{K: VIface, T: t, Tag: Num(0), Box: Num(0)}
	case *types.Struct:
		v := &Val{K: VStruct, T: t}
		for i := 0; i < u.NumFields(); i++ {
			v.Fs = append(v.Fs, zeroVal(u.Field(i).Type()))
		}
		return v
	default:
		return scalar(t, Num(0))
	}
}

func iteVal(c *Term, a, b *Val) *Val {
	if a == b {
		return a
	}
	if a.Guard != nil && b.Guard != nil && a.Guard.mutexID == b.Guard.mutexID {
		g := a.Guard
		a2, b2 := *a, *b
		a2.Guard, b2.Guard = nil, nil
		r := *iteVal(c, &a2, &b2)
		r.Guard = g
		return &r
	}
	fa, fb := flatten(a), flatten(b)
	if len(fa) != len(fb) {
		panic(fmt.Sprintf("iteVal: shape mismatch %v vs %v", a, b))
	}
	ts := make([]*Term, len(fa))
	same := true
	for i := range fa {
		ts[i] = Ite(c, fa[i], fb[i])
		if fa[i] != fb[i] {
			same = false
		}
	}
	if same {
		return a
	}
	return rebuildLike(a, ts)
}

func rebuildLike(a *Val, ts []*Term) *Val {
	if a.T != nil {
		v, _ := unflatten(a.T, ts)
		return v
	}
	v, _ := rebuildShape(a, ts)
	return v
}

func rebuildShape(a *Val, ts []*Term) (*Val, []*Term) {
	switch a.K {
	case VScalar, VArr:
		return &Val{K: a.K, T: a.T, X: ts[0]}, ts[1:]
	case VSlice:
		return &Val{K: VSlice, T: a.T, Ref: ts[0], Off: ts[1], Len: ts[2], Cap: ts[3]}, ts[4:]
	case VIface:
		return &Val{K: VIface, T: a.T, Tag: ts[0], Box: ts[1]}, ts[2:]
	default:
		v := &Val{K: a.K, T: a.T}
		for _, f := range a.Fs {
			var nf *Val
			nf, ts = rebuildShape(f, ts)
			v.Fs = append(v.Fs, nf)
		}
		return v, ts
	}
}

// eqVal: Go == on values of the same shape.
func eqVal(a, b *Val) *Term {
	fa, fb := flatten(a), flatten(b)
	if len(fa) != len(fb) {
		panic(fmt.Sprintf("eqVal: shape mismatch %v vs %v", a, b))
	}
	var cs []*Term
	for i := range fa {
		cs = append(cs, Eq(fa[i], fb[i]))
	}
	return And(cs...)
}

// ---- strings

var strLits = map[string]*Term{}
var strLitOrder []string

func strLit(s string) *Term {
	if t, ok := strLits[s]; ok {
		return t
	}
	t := Var(fmt.Sprintf("strlit!%d", len(strLits)), SInt)
	strLits[s] = t
	strLitOrder = append(strLitOrder, s)
	return t
}

func SLen(s *Term) *Term    { return App("slen", SInt, s) }
func SAt(s, i *Term) *Term  { return App("sat", SInt, s, i) }
func SCat(a, b *Term) *Term { return App("scat", SInt, a, b) }

// strFacts: facts about the string literals used by the given symbols.
func strFacts(used map[string]bool) []*Term {
	var out []*Term
	var ids []*Term
	for _, s := range strLitOrder {
		t := strLits[s]
		if !used[t.Name] {
			continue
		}
		ids = append(ids, t)
		out = append(out, Eq(SLen(t), Num(int64(len(s)))))
		if len(s) <= 64 {
			for i := 0; i < len(s); i++ {
				out = append(out, Eq(SAt(t, Num(int64(i))), Num(int64(s[i]))))
			}
		}
	}
	if len(ids) > 1 {
		out = append(out, intern(&Term{Op: "distinct", Args: ids, S: SBool}))
	}
	// extensionality towards short literals: a string with the literal's length and characters is
	// the literal (strings are values; the id is the abstract string)
	for _, s := range strLitOrder {
		t := strLits[s]
		if !used[t.Name] || len(s) > 8 {
			continue
		}
		x := BVar("s", SInt)
		conds := []*Term{Eq(SLen(x), Num(int64(len(s))))}
		for i := 0; i < len(s); i++ {
			conds = append(conds, Eq(SAt(x, Num(int64(i))), Num(int64(s[i]))))
		}
		out = append(out, Forall([]*Term{x}, [][]*Term{{SLen(x)}}, Implies(And(conds...), Eq(x, t))))
	}
	return out
}

// ---- type names for heap map naming

func typeKey(t types.Type) string {
	return types.TypeString(t, func(p *types.Package) string { return p.Path() })
}

func shortTypeKey(t types.Type) string {
	return types.TypeString(t, func(p *types.Package) string { return p.Name() })
}

// structKey names a struct type for field maps: named types by qualified name.
func structKey(t types.Type) string {
	if n, ok := t.(*types.Named); ok {
		return shortTypeKey(n)
	}
	if a, ok := t.(*types.Alias); ok {
		return structKey(types.Unalias(a))
	}
	return "anon:" + shortTypeKey(t)
}

// type tags for interfaces
var typeTags = map[string]int64{}
var typeTagTypes = map[int64]types.Type{}

func typeTag(t types.Type) *Term {
	k := typeKey(t)
	if id, ok := typeTags[k]; ok {
		return Num(id)
	}
	id := int64(len(typeTags) + 1)
	typeTags[k] = id
	typeTagTypes[id] = t
	return Num(id)
}

// Sub-object references: sub(ref, k) is the address of the embedded struct field k of the
// object at ref; elem(ref, i) the address of struct element i of a backing array.
func SubRef(ref *Term, k int) *Term { return App("sub", SInt, ref, Num(int64(k))) }
func ElemRef(ref, i *Term) *Term   { return App("elem", SInt, ref, i) }
