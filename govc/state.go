package main

// Symbolic state: path condition, local cells, heap maps, allocation counter.

import (
	"fmt"
	"go/types"
	"sort"

	"golang.org/x/tools/go/ssa"
)

type deferEntry struct {
	call  *ssa.Defer
	guard *Term // pc at the time of the defer
	args  []*Val
	fnv   *Val
}

type State struct {
	pc     *Term
	cells  map[*ssa.Alloc]*Val
	heap   map[string]*Term
	ac     *Term // allocation counter: every ref allocated so far is < ac
	defers []deferEntry
	epoch   int      // havoc-all generation: maps never touched since read as H<epoch>.<name>
	mergeOf []*State // predecessors of a merge, for maps first read after the merge
	snaps  map[string]*State // path-sensitive snapshots: "lock" (after last acquire), "unlock" (before last release)
}

func (s *State) clone() *State {
	n := &State{pc: s.pc, ac: s.ac, epoch: s.epoch, mergeOf: s.mergeOf, cells: make(map[*ssa.Alloc]*Val, len(s.cells)), heap: make(map[string]*Term, len(s.heap))}
	for k, v := range s.cells {
		n.cells[k] = v
	}
	for k, v := range s.heap {
		n.heap[k] = v
	}
	n.defers = append([]deferEntry(nil), s.defers...)
	if s.snaps != nil {
		n.snaps = map[string]*State{}
		for k, v := range s.snaps {
			n.snaps[k] = v
		}
	}
	return n
}

// heap map sorts are registered on first use so that every state agrees on the entry symbol.
var heapSorts = map[string]*Sort{}

func (s *State) hget(name string, srt *Sort) *Term {
	if t, ok := s.heap[name]; ok {
		return t
	}
	if old, ok := heapSorts[name]; ok && old != srt {
		panic(fmt.Sprintf("heap map %s used at sorts %s and %s", name, old.Name, srt.Name))
	}
	heapSorts[name] = srt
	if len(s.mergeOf) > 0 {
		// first read after a merge: resolve through the predecessors
		var vals []*Term
		same := true
		for i, p := range s.mergeOf {
			v := p.hget(name, srt)
			vals = append(vals, v)
			if i > 0 && v != vals[0] {
				same = false
			}
		}
		var t *Term
		if same {
			t = vals[0]
		} else {
			t = Fresh("Hm."+name, srt)
			for i, p := range s.mergeOf {
				if lateDef != nil {
					lateDef(Implies(p.pc, Eq(t, vals[i])))
				}
			}
		}
		s.heap[name] = t
		return t
	}
	if s.epoch == 0 {
		return Var("H."+name, srt)
	}
	return Var(fmt.Sprintf("H%d.%s", s.epoch, name), srt)
}

// lateDef receives definitional facts created while resolving lazily merged maps.
var lateDef func(*Term)

var epochCtr int

func newEpoch() int { epochCtr++; return epochCtr }

func (s *State) hset(name string, t *Term) {
	heapSorts[name] = t.S
	if t.Op == "store" && lateDef != nil {
		// name every written version: keeps terms small and quantifier patterns free of stores
		nm := Fresh("Hs."+name, t.S)
		lateDef(Eq(nm, t))
		t = nm
	}
	s.heap[name] = t
}

// ---- field / element / deref access

func fieldMapName(stKey string, f *types.Var, suffix string) string {
	return "f:" + stKey + "." + f.Name() + suffix
}

type writeRec struct {
	mapName string
	ref     *Term // nil: whole map
}

// Heap accessor bundles a state with a write log (used for loop/frames analysis).
type Heap struct {
	st  *State
	log *[]writeRec
}

func (h Heap) note(name string, ref *Term) {
	if h.log != nil {
		*h.log = append(*h.log, writeRec{name, ref})
	}
}

func (h Heap) loadStructAt(ref *Term, t types.Type) *Val {
	st := t.Underlying().(*types.Struct)
	v := &Val{K: VStruct, T: t}
	for i := 0; i < st.NumFields(); i++ {
		v.Fs = append(v.Fs, h.loadField(ref, t, i))
	}
	return v
}

func (h Heap) loadField(ref *Term, structT types.Type, idx int) *Val {
	st := structT.Underlying().(*types.Struct)
	f := st.Field(idx)
	if _, ok := f.Type().Underlying().(*types.Struct); ok && !isOpaque(f.Type()) {
		return h.loadStructAt(SubRef(ref, idx), f.Type())
	}
	key := structKey(structT)
	cs := comps(f.Type())
	ts := make([]*Term, len(cs))
	for i, c := range cs {
		m := h.st.hget(fieldMapName(key, f, c.suffix), SArr(SInt, c.sort))
		ts[i] = Select(m, ref)
	}
	v, _ := unflatten(f.Type(), ts)
	return v
}

func (h Heap) storeField(ref *Term, structT types.Type, idx int, v *Val) {
	st := structT.Underlying().(*types.Struct)
	f := st.Field(idx)
	if _, ok := f.Type().Underlying().(*types.Struct); ok && !isOpaque(f.Type()) {
		h.storeStructAt(SubRef(ref, idx), f.Type(), v)
		return
	}
	key := structKey(structT)
	cs := comps(f.Type())
	ts := flatten(v)
	if len(ts) != len(cs) {
		panic(fmt.Sprintf("storeField %s.%s: %d comps vs %d", key, f.Name(), len(ts), len(cs)))
	}
	for i, c := range cs {
		name := fieldMapName(key, f, c.suffix)
		m := h.st.hget(name, SArr(SInt, c.sort))
		h.st.hset(name, Store(m, ref, ts[i]))
		h.note(name, ref)
	}
}

func (h Heap) storeStructAt(ref *Term, t types.Type, v *Val) {
	st := t.Underlying().(*types.Struct)
	if v.K != VStruct || len(v.Fs) != st.NumFields() {
		panic(fmt.Sprintf("storeStructAt: value %v is not a struct of type %s", v, t))
	}
	for i := 0; i < st.NumFields(); i++ {
		h.storeField(ref, t, i, v.Fs[i])
	}
}

func derefMapName(t types.Type, suffix string) string { return "d:" + shortTypeKey(t) + suffix }
func arrMapName(t types.Type, suffix string) string   { return "a:" + shortTypeKey(t) + suffix }

func (h Heap) loadDeref(ref *Term, t types.Type) *Val {
	if _, ok := t.Underlying().(*types.Struct); ok && !isOpaque(t) {
		return h.loadStructAt(ref, t)
	}
	cs := comps(t)
	ts := make([]*Term, len(cs))
	for i, c := range cs {
		ts[i] = Select(h.st.hget(derefMapName(t, c.suffix), SArr(SInt, c.sort)), ref)
	}
	v, _ := unflatten(t, ts)
	return v
}

func (h Heap) storeDeref(ref *Term, t types.Type, v *Val) {
	if _, ok := t.Underlying().(*types.Struct); ok && !isOpaque(t) {
		h.storeStructAt(ref, t, v)
		return
	}
	cs := comps(t)
	ts := flatten(v)
	for i, c := range cs {
		name := derefMapName(t, c.suffix)
		h.st.hset(name, Store(h.st.hget(name, SArr(SInt, c.sort)), ref, ts[i]))
		h.note(name, ref)
	}
}

// Slice/array elements of struct type are stored as parallel per-field element arrays
// (struct of arrays), so append/copy/zeroing work component-wise like for scalars.
func (h Heap) loadElem(ref, idx *Term, et types.Type) *Val {
	cs := comps(et)
	ts := make([]*Term, len(cs))
	for i, c := range cs {
		m := h.st.hget(arrMapName(et, c.suffix), SArr(SInt, SArr(SInt, c.sort)))
		ts[i] = Select(Select(m, ref), idx)
	}
	v, _ := unflatten(et, ts)
	return v
}

func (h Heap) storeElem(ref, idx *Term, et types.Type, v *Val) {
	cs := comps(et)
	ts := flatten(v)
	for i, c := range cs {
		name := arrMapName(et, c.suffix)
		m := h.st.hget(name, SArr(SInt, SArr(SInt, c.sort)))
		h.st.hset(name, Store(m, ref, Store(Select(m, ref), idx, ts[i])))
		h.note(name, ref)
	}
}

// elemArrays returns the per-component backing arrays (index -> value) of a slice's storage.
func (h Heap) elemArrays(ref *Term, et types.Type) []*Term {
	cs := comps(et)
	out := make([]*Term, len(cs))
	for i, c := range cs {
		m := h.st.hget(arrMapName(et, c.suffix), SArr(SInt, SArr(SInt, c.sort)))
		out[i] = Select(m, ref)
	}
	return out
}

func (h Heap) setElemArrays(ref *Term, et types.Type, arrs []*Term) {
	cs := comps(et)
	for i, c := range cs {
		name := arrMapName(et, c.suffix)
		m := h.st.hget(name, SArr(SInt, SArr(SInt, c.sort)))
		h.st.hset(name, Store(m, ref, arrs[i]))
		h.note(name, ref)
	}
}

// ghost fields: one map per declared ghost field, indexed by object identity.
func ghostSort(typ string) *Sort {
	switch typ {
	case "int":
		return SInt
	case "bool":
		return SBool
	case "[int]int":
		return SArr(SInt, SInt)
	case "[int]bool":
		return SArr(SInt, SBool)
	}
	panic("unknown ghost field type " + typ)
}

func ghostMapName(name string) string { return "g:" + name }

func (h Heap) loadGhost(id *Term, gf *GhostField) *Val {
	srt := ghostSort(gf.Type)
	x := Select(h.st.hget(ghostMapName(gf.Name), SArr(SInt, srt)), id)
	if srt.IsArr() {
		return &Val{K: VArr, X: x}
	}
	return &Val{K: VScalar, X: x}
}

func (h Heap) storeGhost(id *Term, gf *GhostField, x *Term) {
	name := ghostMapName(gf.Name)
	srt := ghostSort(gf.Type)
	h.st.hset(name, Store(h.st.hget(name, SArr(SInt, srt)), id, x))
	h.note(name, id)
}

// ---- maps: present / values / length, keyed by map ref

func mapNames(mt *types.Map) (present string, vals []string, length string) {
	k := "m:" + shortTypeKey(mt)
	present = k + "#has"
	for _, c := range comps(mt.Elem()) {
		vals = append(vals, k+"#val"+c.suffix)
	}
	return present, vals, "m:len"
}

// ---- merging

func mergeStates(ins []*State, name string, addFact func(*Term)) *State {
	if len(ins) == 1 {
		return ins[0].clone()
	}
	out := &State{cells: map[*ssa.Alloc]*Val{}, heap: map[string]*Term{}}
	out.mergeOf = append([]*State(nil), ins...)
	var pcs []*Term
	for _, s := range ins {
		pcs = append(pcs, s.pc)
	}
	// name the merged pc to keep terms small
	pcT := Or(pcs...)
	if pcT.Op == "or" {
		nm := Fresh("pc."+name, SBool)
		addFact(Eq(nm, pcT))
		pcT = nm
	}
	out.pc = pcT
	// cells: union of keys; a cell missing in a predecessor keeps the other's value
	keys := map[*ssa.Alloc]bool{}
	for _, s := range ins {
		for k := range s.cells {
			keys[k] = true
		}
	}
	for k := range keys {
		var acc *Val
		for i := len(ins) - 1; i >= 0; i-- {
			v, ok := ins[i].cells[k]
			if !ok {
				continue
			}
			if acc == nil {
				acc = v
			} else {
				acc = iteVal(ins[i].pc, v, acc)
			}
		}
		out.cells[k] = acc
	}
	hkeys := map[string]bool{}
	for _, s := range ins {
		for k := range s.heap {
			hkeys[k] = true
		}
	}
	var hk []string
	for k := range hkeys {
		hk = append(hk, k)
	}
	sort.Strings(hk)
	for _, k := range hk {
		srt := heapSorts[k]
		same := true
		first := ins[0].hget(k, srt)
		for _, in := range ins[1:] {
			if in.hget(k, srt) != first {
				same = false
			}
		}
		if same {
			out.heap[k] = first
			continue
		}
		// arrays: a fresh version equal to each predecessor's under that predecessor's path
		// condition (guarded equalities are much easier on the solvers than array-sorted ite)
		nm := Fresh("Hm."+k, srt)
		for _, in := range ins {
			addFact(Implies(in.pc, Eq(nm, in.hget(k, srt))))
		}
		out.heap[k] = nm
	}
	var acc *Term
	for i := len(ins) - 1; i >= 0; i-- {
		if acc == nil {
			acc = ins[i].ac
		} else {
			acc = Ite(ins[i].pc, ins[i].ac, acc)
		}
	}
	out.ac = acc
	// snapshots: merged with the predecessors' path conditions
	snapKeys := map[string]bool{}
	for _, in := range ins {
		for k := range in.snaps {
			snapKeys[k] = true
		}
	}
	for k := range snapKeys {
		same := true
		var first *State
		var parts []*State
		for i, in := range ins {
			sn := in.snaps[k]
			if sn == nil {
				sn = in
			}
			if i == 0 {
				first = sn
			} else if sn != first {
				same = false
			}
			cp := sn.clone()
			cp.pc = in.pc
			cp.snaps = nil
			parts = append(parts, cp)
		}
		if out.snaps == nil {
			out.snaps = map[string]*State{}
		}
		if same {
			out.snaps[k] = first
		} else {
			out.snaps[k] = mergeStates(parts, name+".snap."+k, addFact)
		}
	}
	// defers: must agree structurally; take the longest (guards make them conditional)
	for _, s := range ins {
		if len(s.defers) > len(out.defers) {
			out.defers = append([]deferEntry(nil), s.defers...)
		}
	}
	return out
}
