package main

import "golang.org/x/tools/go/ssa"

func lockHookImpl(fr *Frame, st *State, in ssa.Instruction, ct *Contract, recv *Val, before bool) {}
