package main

// Monitor rule (DESIGN.md §3.7): guarded_by declarations, havoc/assume at acquire,
// assert at release, and guard obligations on accesses to protected state.

import (
	"fmt"
	"go/types"
	"strings"

	"golang.org/x/tools/go/ssa"
)

type guardDecl struct {
	g        *Guarded
	structT  string // struct key, e.g. "bus.serviceImpl"
	mutexFld string
	fields   map[string]bool // protected field names of the same struct
	rw       bool
}

func (e *Engine) guardIndex() map[string]*guardDecl {
	if e.guardIdx != nil {
		return e.guardIdx
	}
	e.guardIdx = map[string]*guardDecl{}
	for _, g := range e.guards {
		tn := strings.TrimPrefix(g.RecvType, "*")
		pkgName := g.Pkg
		if i := strings.LastIndex(pkgName, "/"); i >= 0 {
			pkgName = pkgName[i+1:]
		}
		if p := e.pkgByPath[g.Pkg]; p != nil {
			pkgName = p.Name()
		}
		gd := &guardDecl{g: g, structT: pkgName + "." + tn, fields: map[string]bool{}}
		// mutex expression: recv.field
		if g.Mutex.Kind == ESel && g.Mutex.Args[0].Kind == EIdent && g.Mutex.Args[0].Name == g.RecvName {
			gd.mutexFld = g.Mutex.Name
		} else {
			e.loadErrs = append(e.loadErrs, "guarded_by: mutex must be "+g.RecvName+".<field>")
			continue
		}
		for _, l := range g.Locs {
			x := l
			for x.Kind == EIndex {
				x = x.Args[0]
			}
			if x.Kind == ESel && x.Args[0].Kind == EIdent && x.Args[0].Name == g.RecvName {
				gd.fields[x.Name] = true
			}
		}
		// the struct, its mutex and every protected field must exist: a renamed field would otherwise
		// silently lose its guard obligations
		if p := e.pkgByPath[g.Pkg]; p != nil {
			if obj := p.Scope().Lookup(tn); obj == nil {
				e.loadErrs = append(e.loadErrs, "guarded_by: no type "+tn+" in "+g.Pkg+" (contract out of date)")
			} else if st, ok := obj.Type().Underlying().(*types.Struct); ok {
				has := map[string]bool{}
				for i := 0; i < st.NumFields(); i++ {
					has[st.Field(i).Name()] = true
				}
				if !has[gd.mutexFld] {
					e.loadErrs = append(e.loadErrs, "guarded_by: "+tn+" has no field "+gd.mutexFld+" (contract out of date)")
				}
				for f := range gd.fields {
					if !has[f] {
						e.loadErrs = append(e.loadErrs, "guarded_by: "+tn+" has no field "+f+" (contract out of date)")
					}
				}
			}
		}
		e.guardIdx[gd.structT+"."+gd.mutexFld] = gd
		for f := range gd.fields {
			e.guardByField[gd.structT+"."+f] = gd
		}
	}
	return e.guardIdx
}

func mutexFieldIndex(st *types.Struct, name string) (int, bool) {
	for i := 0; i < st.NumFields(); i++ {
		if st.Field(i).Name() == name {
			_, isRW := st.Field(i).Type().(*types.Named)
			_ = isRW
			return i, shortTypeKey(st.Field(i).Type()) == "sync.RWMutex"
		}
	}
	return -1, false
}

// fieldGuard returns the guard of a struct field address, if the field is lock-protected.
func (c *FnCtx) fieldGuard(a *Addr) *guardRef {
	if a == nil || a.Kind != AField || a.ST == nil {
		return nil
	}
	c.eng.guardIndex()
	gd := c.eng.guardByField[a.STName+"."+a.ST.Field(a.Idx).Name()]
	if gd == nil {
		return nil
	}
	mi, rw := mutexFieldIndex(a.ST, gd.mutexFld)
	if mi < 0 {
		return nil
	}
	return &guardRef{mutexID: SubRef(a.Ref, mi), field: a.ST.Field(a.Idx).Name(), rw: rw, owner: a.Ref, ownerT: a.ET, fieldIx: a.Idx}
}

func (fr *Frame) heldTerms(st *State, g *guardRef) (w *Term, r *Term) {
	gw := fr.c.eng.ghostFields["lockw"]
	gr := fr.c.eng.ghostFields["lockr"]
	if gw == nil || gr == nil {
		return True, True
	}
	h := Heap{st: st}
	w = h.loadGhost(g.mutexID, gw).X
	r = Or(w, Lt(Num(0), h.loadGhost(g.mutexID, gr).X))
	return w, r
}

// guardCheck emits the obligation that the protecting lock is held for this access.
func (fr *Frame) guardCheck(st *State, in ssa.Instruction, g *guardRef, write bool, what string) {
	fr.guardCheckC(st, in, g, write, what, nil)
}

// guardCheckC: content is the map / backing-array reference being accessed (nil for the field itself).
func (fr *Frame) guardCheckC(st *State, in ssa.Instruction, g *guardRef, write bool, what string, content *Term) {
	if g == nil || fr.c.dry > 0 {
		return
	}
	if fr.contract != nil && fr.contract.Opts["nolockcheck"] == "yes" {
		return
	}
	w, r := fr.heldTerms(st, g)
	goal := r
	mode := "read"
	if write {
		goal = w
		mode = "write"
	}
	if content != nil && g.owner != nil {
		// contents (map entries, slice elements) are protected only while the protected field still
		// refers to them: a table that has been detached (field replaced before the release) is
		// private to this thread
		// the field's value when this thread last released the lock (nobody else can re-attach a
		// detached table: no other reference to it exists); before any release: the current value
		fst := st
		if sn := st.snaps["unlock"]; sn != nil {
			fst = sn
		}
		cur := Heap{st: fst}.loadField(g.owner, g.ownerT, g.fieldIx)
		var curRef *Term
		switch cur.K {
		case VSlice:
			curRef = cur.Ref
		case VScalar:
			curRef = cur.X
		}
		if curRef != nil {
			goal = Or(goal, Neq(content, curRef))
		}
	}
	name := fmt.Sprintf("guard:%s@%s#%d", g.field, what, fr.c.guardSeq(in, g.field+what))
	fr.c.oblige(fr, st, "guard", name, goal, nil, fmt.Sprintf("%s of lock-protected %s requires the lock (%s mode): %s", mode, g.field, mode, in.String()), true)
}

func (c *FnCtx) guardSeq(in ssa.Instruction, key string) int {
	if c.guardOrd == nil {
		c.guardOrd = map[string]map[ssa.Instruction]int{}
	}
	m := c.guardOrd[key]
	if m == nil {
		m = map[ssa.Instruction]int{}
		c.guardOrd[key] = m
	}
	if n, ok := m[in]; ok {
		return n
	}
	m[in] = len(m) + 1
	return m[in]
}

func lockKind(ct *Contract) string {
	switch ct.Key {
	case "(*sync.Mutex).Lock", "(*sync.RWMutex).Lock":
		return "lock"
	case "(*sync.RWMutex).RLock":
		return "rlock"
	case "(*sync.Mutex).Unlock", "(*sync.RWMutex).Unlock":
		return "unlock"
	case "(*sync.RWMutex).RUnlock":
		return "runlock"
	}
	return ""
}

// lockHookImpl: monitor actions around Lock/Unlock contract applications.
func lockHookImpl(fr *Frame, st *State, in ssa.Instruction, ct *Contract, recv *Val, before bool) {
	c := fr.c
	kind := lockKind(ct)
	if kind == "" || recv == nil {
		return
	}
	a := recv.Addr
	if a == nil || a.Kind != AField || a.ST == nil {
		return
	}
	if (kind == "lock" || kind == "rlock") && before && c.dry == 0 {
		// remember every mutex this function acquires: a blocking channel operation while one of
		// them is held is a mechanism obligation (blockingCheck)
		c.noteAcquired(SubRef(a.Ref, a.Idx), a.STName+"."+a.ST.Field(a.Idx).Name())
	}
	c.eng.guardIndex()
	gd := c.eng.guardIdx[a.STName+"."+a.ST.Field(a.Idx).Name()]
	if gd == nil {
		return
	}
	owner := &Val{K: VScalar, T: types.NewPointer(a.ET), X: a.Ref}
	env := &Env{c: c, cur: st, old: fr.entry, vars: map[string]*Val{gd.g.RecvName: owner}, pkg: c.eng.pkgByPath[gd.g.Pkg]}
	for k, v := range c.ghostVals {
		env.vars[k] = v
	}
	switch {
	case (kind == "unlock" || kind == "runlock") && before:
		// release: the monitor invariant must hold again
		if c.dry == 0 {
			sn := st.clone()
			sn.snaps = nil
			if st.snaps == nil {
				st.snaps = map[string]*State{}
			}
			st.snaps["unlock"] = sn
		}
		if kind == "unlock" {
			for i, m := range gd.g.Monitor {
				t, err := env.evalClause(m.E)
				if err != nil {
					c.errorf("monitor invariant %d of %s: %v", i+1, gd.structT, err)
					continue
				}
				c.oblige(fr, st, "monitor", fmt.Sprintf("monitor#%d@call:%s", i+1, c.callOrd[in]), t, m.Tags, m.Text, len(m.Tags) == 0)
			}
		}
	case (kind == "lock" || kind == "rlock") && !before:
		// acquire: other threads may have changed the protected state; only the invariant is known
		if c.dry == 0 || true {
			for _, l := range gd.g.Locs {
				locs, err := env.evalLocs(l)
				if err != nil {
					c.errorf("guarded_by %s: %v", gd.structT, err)
					continue
				}
				fr.havocLocs(st, locs)
			}
			for _, m := range gd.g.Monitor {
				t, err := env.evalClause(m.E)
				if err != nil {
					c.errorf("monitor invariant of %s: %v", gd.structT, err)
					continue
				}
				c.addFact(st, t)
			}
			for _, m := range gd.g.Assumed {
				t, err := env.evalClause(m.E)
				if err != nil {
					c.errorf("monitor_assume of %s: %v", gd.structT, err)
					continue
				}
				c.addFact(st, t)
				c.trusted["history assumption on "+gd.structT+" (assumed at every lock acquisition, never proved): "+m.Text] = true
			}
			if c.dry == 0 {
				sn := st.clone()
				sn.snaps = nil
				if st.snaps == nil {
					st.snaps = map[string]*State{}
				}
				st.snaps["lock"] = sn
			}
		}
	}
}

// restoreLocked: monitor rule for calls made while this function's receiver holds its own lock.
// State protected by a lock that the current thread holds cannot be changed by other threads, and
// the callee cannot take the write lock without deadlocking; so after a havoc-all the protected
// locations of the receiver keep their values whenever the lock is held (read or write mode).
func (fr *Frame) restoreLocked(pre, st *State) {
	c := fr.c
	top := c.top
	if top == nil || top.fn.Signature.Recv() == nil || len(top.fn.Params) == 0 {
		return
	}
	recv := top.vals[top.fn.Params[0]]
	if recv == nil || recv.T == nil {
		return
	}
	pt, ok := recv.T.Underlying().(*types.Pointer)
	if !ok {
		return
	}
	stt, ok := pt.Elem().Underlying().(*types.Struct)
	if !ok {
		return
	}
	c.eng.guardIndex()
	key := structKey(pt.Elem())
	for _, gd := range c.eng.guardIdx {
		if gd.structT != key {
			continue
		}
		mi, _ := mutexFieldIndex(stt, gd.mutexFld)
		if mi < 0 {
			continue
		}
		g := &guardRef{mutexID: SubRef(recv.X, mi)}
		_, held := fr.heldTerms(pre, g)
		envPre := &Env{c: c, cur: pre, vars: map[string]*Val{gd.g.RecvName: recv}, pkg: c.eng.pkgByPath[gd.g.Pkg]}
		for _, l := range gd.g.Locs {
			locs, err := envPre.evalLocs(l)
			if err != nil {
				continue
			}
			for _, loc := range locs {
				if loc.ref == nil || loc.mapName == "*" {
					continue
				}
				cur := st.hget(loc.mapName, loc.sort)
				old := pre.hget(loc.mapName, loc.sort)
				nv := Fresh("Hk."+loc.mapName, loc.sort)
				c.addDef(Implies(held, Eq(nv, Store(cur, loc.ref, Select(old, loc.ref)))))
				c.addDef(Implies(Not(held), Eq(nv, cur)))
				st.hset(loc.mapName, nv)
			}
		}
		c.trusted["monitor rule: state protected by a lock the current thread holds is unchanged by calls made while holding it"] = true
	}
}

type acquiredMutex struct {
	id   *Term
	name string
}

func (c *FnCtx) noteAcquired(id *Term, name string) {
	for _, m := range c.acquired {
		if m.id == id {
			return
		}
	}
	c.acquired = append(c.acquired, acquiredMutex{id, name})
}

// blockingCheck: mechanism obligation (C12). A plain channel send or receive (outside a select) may
// park the goroutine for as long as the peer likes; doing so while holding a mutex this function
// acquired makes every other user of that mutex wait for the peer too (one full mailbox stalls the
// whole service). Obligation: none of the mutexes acquired in this function is held at the operation.
func (fr *Frame) blockingCheck(st *State, in ssa.Instruction, what string) {
	c := fr.c
	if c.dry > 0 || len(c.acquired) == 0 {
		return
	}
	if fr.contract != nil && fr.contract.Opts["nolockcheck"] == "yes" {
		return
	}
	gw := c.eng.ghostFields["lockw"]
	gr := c.eng.ghostFields["lockr"]
	if gw == nil || gr == nil {
		return
	}
	h := Heap{st: st}
	for _, m := range c.acquired {
		free := And(Not(h.loadGhost(m.id, gw).X), Eq(h.loadGhost(m.id, gr).X, Num(0)))
		name := fmt.Sprintf("lock:blocking:%s@%s#%d", m.name, what, c.guardSeq(in, "blocking"+what))
		// the obligation serves every property the function is under contract for (a stalled mutex stalls
		// whatever the function is part of: C16's Remove behind Receive's read lock), and C12 in any case
		tags := []string{"C12"}
		if fr.contract != nil {
			for _, t := range fr.contract.Tags {
				if t != "C12" {
					tags = append(tags, t)
				}
			}
		}
		c.oblige(fr, st, "lock", name, free, tags, "blocking channel "+what+" while "+m.name+" may be held: "+in.String(), false)
	}
}
