package main

// Obligation discharge: SMT-LIB script generation, solver race, result parsing.

import (
	"bytes"
	"context"
	"fmt"
	"go/types"
	"os"
	"os/exec"
	"path/filepath"
	"sort"
	"strings"
	"sync"
	"time"
)

type solverCfg struct {
	name string
	args func(timeoutSec int, file string) []string
	pre  string
}

var solvers = []solverCfg{
	{"z3-new", func(t int, f string) []string { return []string{"z3-new", fmt.Sprintf("-T:%d", t), f} }, ""},
	{"z3", func(t int, f string) []string { return []string{"z3", fmt.Sprintf("-T:%d", t), f} }, ""},
	{"cvc5", func(t int, f string) []string {
		return []string{"cvc5", fmt.Sprintf("--tlimit=%d", t*1000), "--lang=smt2", f}
	}, "(set-logic ALL)\n"},
}

func backgroundAxioms(used map[string]bool) []*Term {
	var out []*Term
	r, k := BVar("r", SInt), BVar("k", SInt)
	if used["sub"] || used["rootof"] {
		s := App("sub", SInt, r, k)
		out = append(out, Forall([]*Term{r, k}, [][]*Term{{s}}, And(Lt(s, Num(0)), Eq(App("subbase", SInt, s), r), Eq(App("subidx", SInt, s), k), Eq(App("refkind", SInt, s), Num(1)))))
	}
	if used["elem"] || used["rootof"] {
		s := App("elem", SInt, r, k)
		out = append(out, Forall([]*Term{r, k}, [][]*Term{{s}}, And(Lt(s, Num(0)), Eq(App("elembase", SInt, s), r), Eq(App("elemidx", SInt, s), k), Eq(App("refkind", SInt, s), Num(2)))))
	}
	if used["slen"] {
		s := App("slen", SInt, r)
		out = append(out, Forall([]*Term{r}, [][]*Term{{s}}, And(Le(Num(0), s), Le(s, NumBig(maxInt64)))))
	}
	if used["emptyset"] {
		e := App("emptyset", SArr(SInt, SBool))
		out = append(out, Forall([]*Term{k}, [][]*Term{{Select(e, k)}}, Not(Select(e, k))))
	}
	if used["rootof"] {
		// rootof(x): the allocated object an (embedded / element) reference belongs to
		x := App("rootof", SInt, r)
		out = append(out, Forall([]*Term{r}, [][]*Term{{x}}, Implies(Le(Num(0), r), Eq(x, r))))
		sx := App("sub", SInt, r, k)
		out = append(out, Forall([]*Term{r, k}, [][]*Term{{sx}}, Eq(App("rootof", SInt, sx), App("rootof", SInt, r))))
		ex := App("elem", SInt, r, k)
		out = append(out, Forall([]*Term{r, k}, [][]*Term{{ex}}, Eq(App("rootof", SInt, ex), App("rootof", SInt, r))))
	}
	if used["boxv"] {
		s := App("boxv", SInt, r)
		out = append(out, Forall([]*Term{r}, [][]*Term{{s}}, And(Lt(s, Num(-1000000)), Eq(App("unboxv", SInt, s), r))))
	}
	if used["ifacekey"] {
		s := App("ifacekey", SInt, r, k)
		out = append(out, Forall([]*Term{r, k}, [][]*Term{{s}}, And(Eq(App("ikeytag", SInt, s), r), Eq(App("ikeybox", SInt, s), k))))
	}
	return out
}

// script builds the SMT-LIB text for an obligation.
var hasQuantMemo = map[*Term]bool{}

func hasQuant(t *Term) bool {
	if v, ok := hasQuantMemo[t]; ok {
		return v
	}
	r := t.Op == "forall" || t.Op == "exists"
	if !r {
		for _, a := range t.Args {
			if hasQuant(a) {
				r = true
				break
			}
		}
	}
	hasQuantMemo[t] = r
	return r
}

// groundByteFacts: range facts for the ground byte-store reads occurring in the assertions.
func groundByteFacts(asserts []*Term) []*Term {
	seen := map[*Term]bool{}
	var out []*Term
	var rec func(t *Term, bound bool)
	rec = func(t *Term, bound bool) {
		if seen[t] {
			return
		}
		seen[t] = true
		if t.Op == "forall" || t.Op == "exists" {
			return
		}
		if t.Op == "select" && t.S == SInt {
			a := t.Args[0]
			isByte := false
			if a.Op == "var" && isByteStoreSym(a.Name) {
				isByte = true
			} else if a.Op == "select" && a.Args[0].Op == "var" && isByteStoreSym(a.Args[0].Name) {
				isByte = true
			}
			if isByte {
				out = append(out, And(Le(Num(0), t), Le(t, Num(255))))
			}
		}
		for _, x := range t.Args {
			rec(x, bound)
		}
	}
	for _, a := range asserts {
		rec(a, false)
	}
	return out
}

func (o *Obligation) script(eng *Engine, withModel bool) string {
	var asserts []*Term
	if o.relaxed {
		// counterexample search: quantified assumptions are dropped (weaker assumptions; any
		// model is only a candidate that the replay against the real code has to confirm)
		for _, f := range o.ctx.facts[:o.NFacts] {
			if !hasQuant(f) {
				asserts = append(asserts, f)
			}
		}
	} else {
		asserts = append(asserts, o.ctx.facts[:o.NFacts]...)
	}
	asserts = append(asserts, o.Extra...)
	var final *Term
	if o.ExpectSat {
		final = o.PC
	} else {
		final = Not(Implies(o.PC, o.Goal))
	}
	asserts = append(asserts, final)
	used := map[string]bool{}
	collectSyms(asserts, used)
	// relevant spec axioms (fixpoint over shared spec symbols)
	if eng != nil {
		included := map[int]bool{}
		for changed := true; changed; {
			changed = false
			for i, at := range eng.axiomTerms {
				if included[i] {
					continue
				}
				if o.noAxiom != "" && at.ax.Lemma && i >= eng.axiomIndex(o.noAxiom) {
					continue
				}
				if len(at.ax.Params) > 0 {
					continue // parameterised lemmas are proved, never assumed
				}
				rel := false
				for s := range at.syms {
					if strings.HasPrefix(s, "spec.") && used[s] {
						rel = true
						break
					}
				}
				if rel {
					included[i] = true
					asserts = append(asserts, at.t)
					collectSyms([]*Term{at.t}, used)
					changed = true
				}
			}
		}
	}
	// interface assertions: for every dynamic type registered so far, whether it implements the
	// asserted interface is decided by the Go type checker (ground facts)
	{
		var preds []string
		for n := range used {
			if strings.HasPrefix(n, "implements.") && implIfaces[n] != nil {
				preds = append(preds, n)
			}
		}
		sort.Strings(preds)
		var ids []int64
		for id := range typeTagTypes {
			ids = append(ids, id)
		}
		sort.Slice(ids, func(i, j int) bool { return ids[i] < ids[j] })
		for _, pn := range preds {
			for _, id := range ids {
				asserts = append(asserts, Eq(App(pn, SBool, Num(id)), BoolT(types.Implements(typeTagTypes[id], implIfaces[pn]))))
			}
		}
	}
	if used["comparable"] {
		var ids []int64
		for id := range typeTagTypes {
			ids = append(ids, id)
		}
		sort.Slice(ids, func(i, j int) bool { return ids[i] < ids[j] })
		for _, id := range ids {
			asserts = append(asserts, Eq(App("comparable", SBool, Num(id)), BoolT(types.Comparable(typeTagTypes[id]))))
		}
	}
	// heap well-typedness for byte storage: every version of the stream-data ghost map and of the
	// []byte backing-array map, and every element array created for them, holds values in 0..255
	{
		var names []string
		for n := range used {
			names = append(names, n)
		}
		sort.Strings(names)
		for _, n := range names {
			if !isByteStoreSym(n) {
				continue
			}
			d := decls[n]
			if d == nil || len(d.args) != 0 {
				continue
			}
			j, r := BVar("j", SInt), BVar("r", SInt)
			v := Var(n, d.ret)
			switch d.ret {
			case SArr(SInt, SInt):
				e := Select(v, j)
				asserts = append(asserts, Forall([]*Term{j}, [][]*Term{{e}}, And(Le(Num(0), e), Le(e, Num(255)))))
			case SArr(SInt, SArr(SInt, SInt)):
				e := Select(Select(v, r), j)
				asserts = append(asserts, Forall([]*Term{r, j}, [][]*Term{{e}}, And(Le(Num(0), e), Le(e, Num(255)))))
			}
		}
	}
	bg := backgroundAxioms(used)
	collectSyms(bg, used)
	sf := strFacts(used)
	if o.relaxed {
		var keep []*Term
		for _, a := range append(append(asserts, bg...), sf...) {
			if !hasQuant(a) || a == final {
				keep = append(keep, a)
			}
		}
		asserts = append(keep, groundByteFacts(keep)...)
		bg, sf = nil, nil
	}
	collectSyms(sf, used)
	var sb strings.Builder
	if withModel {
		sb.WriteString("(set-option :produce-models true)\n")
	}
	sb.WriteString("; obligation " + o.Name + " in " + o.Fn + "\n; " + strings.ReplaceAll(o.Text, "\n", " ") + "\n")
	sb.WriteString(declText(used))
	var all []*Term
	all = append(all, bg...)
	all = append(all, sf...)
	all = append(all, asserts...)
	sb.WriteString(printAsserts(all))
	sb.WriteString("(check-sat)\n")
	if withModel {
		sb.WriteString("(get-model)\n")
	}
	return sb.String()
}

func runSolver(s solverCfg, file string, timeoutSec int) (status string, out string, secs float64) {
	data, _ := os.ReadFile(file)
	f := file
	if s.pre != "" {
		f = file + "." + s.name + ".smt2"
		os.WriteFile(f, append([]byte(s.pre), data...), 0o644)
		defer os.Remove(f)
	}
	args := s.args(timeoutSec, f)
	ctx, cancel := context.WithTimeout(context.Background(), time.Duration(timeoutSec+2)*time.Second)
	defer cancel()
	cmd := exec.CommandContext(ctx, args[0], args[1:]...)
	var buf bytes.Buffer
	cmd.Stdout = &buf
	cmd.Stderr = &buf
	t0 := time.Now()
	cmd.Run()
	secs = time.Since(t0).Seconds()
	out = buf.String()
	first := strings.TrimSpace(strings.SplitN(out, "\n", 2)[0])
	switch first {
	case "unsat", "sat", "unknown":
		return first, out, secs
	case "timeout":
		return "timeout", out, secs
	}
	if ctx.Err() != nil {
		return "timeout", out, secs
	}
	return "error", out, secs
}

type dischargeOpts struct {
	outDir     string
	timeout    int
	allSolvers bool
	knownFail  map[string]bool // obligations listed as known findings: one solver attempt, no retry
	jobs       int
	seed       int
}

// discharge runs the solvers on every obligation (in parallel) and fills in the results.
func discharge(eng *Engine, obls []*Obligation, opt dischargeOpts) {
	os.MkdirAll(opt.outDir, 0o755)
	sem := make(chan struct{}, opt.jobs)
	var wg sync.WaitGroup
	var mu sync.Mutex
	// scripts are generated sequentially (term tables are not thread-safe)
	type job struct {
		o    *Obligation
		file string
	}
	var jobs []job
	for i, o := range obls {
		if !o.ExpectSat && (o.Goal == True || o.PC == False) {
			o.Status = "unsat"
			o.Solver = "simplifier"
			continue
		}
		name := strings.NewReplacer("/", "_", "(", "", ")", "", "*", "", " ", "", "#", "-", ":", "-", "$", "-").Replace(lastName2(o.Fn) + "__" + o.Name)
		file := filepath.Join(opt.outDir, fmt.Sprintf("%04d_%s.smt2", i, name))
		os.WriteFile(file, []byte(o.script(eng, false)), 0o644)
		o.SMTFile = file
		jobs = append(jobs, job{o, file})
	}
	for _, j := range jobs {
		wg.Add(1)
		sem <- struct{}{}
		go func(j job) {
			defer wg.Done()
			defer func() { <-sem }()
			want := "unsat"
			if j.o.ExpectSat {
				// vacuity smoke test: the assumptions must not be refutable. Models of quantified
				// assumptions are rarely found, so "sat" or "unknown"/timeout both pass; only a
				// proof of inconsistency ("unsat") fails the cover.
				ct := 1 // quick tier: 1 s per cover (refutations take 0.02-0.3 s when they exist); thorough: 3 s
				if opt.timeout > 10 {
					ct = 3
				}
				status, out, secs := runSolver(solvers[0], j.file, ct)
				mu.Lock()
				j.o.Solver = solvers[0].name
				j.o.Secs = secs
				if status == "unsat" {
					j.o.Status = "unsat"
					j.o.Model = out
				} else {
					j.o.Status = "sat"
					if status != "sat" {
						j.o.Status = "sat"
						j.o.Solver += " (not refuted: " + status + ")"
					}
				}
				mu.Unlock()
				return
			}
			var best, bestOut, bestSolver string
			var total float64
			order := solvers
			if h := solverHints[shortFn(j.o.Fn)+"/"+j.o.Name]; h != "" && h != solvers[0].name {
				// a solver known to decide this obligation quickly goes first (solver_hints.json)
				order = nil
				for _, s := range solvers {
					if s.name == h {
						order = append(order, s)
					}
				}
				for _, s := range solvers {
					if s.name != h {
						order = append(order, s)
					}
				}
			}
			if opt.knownFail[shortFn(j.o.Fn)+"/"+j.o.Name] {
				order = order[:1]
			}
			for si, s := range order {
				status, out, secs := runSolver(s, j.file, opt.timeout)
				total += secs
				if status == want {
					best, bestOut, bestSolver = status, out, s.name
					break
				}
				if status == "sat" || status == "unsat" {
					// definite answer opposite to the wanted one: stop
					best, bestOut, bestSolver = status, out, s.name
					break
				}
				if best == "" || best == "error" {
					best, bestOut, bestSolver = status, out, s.name
				}
				_ = si
			}
			mu.Lock()
			j.o.Status = best
			j.o.Solver = bestSolver
			j.o.Secs = total
			if best != want {
				j.o.Model = bestOut
			}
			mu.Unlock()
		}(j)
	}
	wg.Wait()
	// second chance, a few at a time and with a longer timeout, for obligations that timed out while
	// the machine was loaded by the parallel phase (keeps near-limit proofs from flaking)
	var retry []job
	for _, j := range jobs {
		if !j.o.ExpectSat && (j.o.Status == "timeout" || j.o.Status == "unknown" || j.o.Status == "error") && !opt.knownFail[shortFn(j.o.Fn)+"/"+j.o.Name] {
			retry = append(retry, j)
		}
	}
	if len(retry) > 0 && len(retry) <= 24 {
		sem2 := make(chan struct{}, 4)
		var wg2 sync.WaitGroup
		for _, j := range retry {
			wg2.Add(1)
			sem2 <- struct{}{}
			go func(j job) {
				defer wg2.Done()
				defer func() { <-sem2 }()
				status, out, secs := runSolver(solvers[0], j.file, opt.timeout*3)
				mu.Lock()
				j.o.Secs += secs
				if status == "unsat" {
					j.o.Status = "unsat"
					j.o.Solver = solvers[0].name + " (retry)"
					j.o.Model = ""
				} else if status == "sat" {
					j.o.Status = "sat"
					j.o.Model = out
				}
				mu.Unlock()
			}(j)
		}
		wg2.Wait()
	}
}

// crossCheck (thorough tier): every obligation proved by one solver is put to the other solvers as
// well. A definite opposite answer is a disagreement between solvers (a solver bug or an unstable
// encoding) and is reported; "unknown"/timeout from the second solver is only counted.
func crossCheck(obls []*Obligation, timeout int) (agreed, undecided int, disagreements []*Obligation) {
	sem := make(chan struct{}, 16)
	var wg sync.WaitGroup
	var mu sync.Mutex
	for _, o := range obls {
		if o.ExpectSat || o.Status != "unsat" || o.SMTFile == "" || o.Solver == "simplifier" {
			continue
		}
		wg.Add(1)
		sem <- struct{}{}
		go func(o *Obligation) {
			defer wg.Done()
			defer func() { <-sem }()
			first := strings.TrimSuffix(o.Solver, " (retry)")
			ok, bad := false, false
			for _, s := range solvers {
				if s.name == first {
					continue
				}
				status, out, _ := runSolver(s, o.SMTFile, timeout)
				if status == "unsat" {
					ok = true
					break
				}
				if status == "sat" {
					bad = true
					mu.Lock()
					o.Model = "proved by " + first + " but " + s.name + " answers sat:\n" + out
					mu.Unlock()
					break
				}
			}
			mu.Lock()
			switch {
			case bad:
				disagreements = append(disagreements, o)
			case ok:
				agreed++
			default:
				undecided++
			}
			mu.Unlock()
		}(o)
	}
	wg.Wait()
	return
}

func lastName2(fn string) string {
	fn = strings.ReplaceAll(fn, "github.com/lugu/qiloop/", "")
	return fn
}

// getModel re-runs an obligation with model production on the reference solver.
func getModel(eng *Engine, o *Obligation, outDir string, timeout int) string {
	file := filepath.Join(outDir, "model_query.smt2")
	os.WriteFile(file, []byte(o.script(eng, true)), 0o644)
	_, out, _ := runSolver(solvers[0], file, timeout)
	return out
}

// candidateModel looks for a counterexample candidate with the quantified assumptions dropped.
func candidateModel(eng *Engine, o *Obligation, outDir string, timeout int) (string, bool) {
	file := filepath.Join(outDir, "candidate_query.smt2")
	os.WriteFile(file, []byte(o.script(eng, true)), 0o644)
	status, out, _ := runSolver(solvers[0], file, timeout)
	return out, status == "sat"
}

func (o *Obligation) ok() bool {
	if o.ExpectSat {
		return o.Status == "sat"
	}
	return o.Status == "unsat"
}

func minInt(a, b int) int {
	if a < b {
		return a
	}
	return b
}

func (e *Engine) axiomIndex(name string) int {
	for i, at := range e.axiomTerms {
		if at.ax.Name == name {
			return i
		}
	}
	return 1 << 30
}

// isByteStoreSym: symbol is a version of g:data / a:byte or an element array made for them.
func isByteStoreSym(n string) bool {
	i := strings.Index(n, ".")
	if i < 0 {
		return false
	}
	rest := n[i+1:]
	for _, p := range []string{"g:data", "g_data", "a:byte", "a_byte", "a:uint8", "a_uint8"} {
		if strings.HasPrefix(rest, p) {
			tail := rest[len(p):]
			if tail == "" || tail[0] == '!' {
				return true
			}
		}
	}
	return false
}

// implIfaces: interface type behind each implements.<I> predicate (see execTypeAssert).
var implIfaces = map[string]*types.Interface{}

// solverHints: obligation -> solver that decided it on an earlier run (committed file
// /verif/solver_hints.json, written by `govc check --write-hints`); only the order in which the
// solvers are tried depends on it.
var solverHints = map[string]string{}
