package main

// Instruction semantics.

import (
	"fmt"
	"go/token"
	"go/types"
	"math/big"
	"strings"

	"golang.org/x/tools/go/ssa"
)

func (fr *Frame) safeName(in ssa.Instruction, kind string) string {
	if _, ok := in.(ssa.CallInstruction); ok {
		return fmt.Sprintf("safe:%s@call:%s", kind, fr.c.callOrd[in])
	}
	if _, ok := in.(*ssa.Slice); ok && kind == "nil" {
		return fmt.Sprintf("safe:nilslice#%d", fr.c.ordinals[in])
	}
	if _, ok := in.(*ssa.IndexAddr); ok && kind == "nil" {
		return fmt.Sprintf("safe:nilindex#%d", fr.c.ordinals[in])
	}
	return fmt.Sprintf("safe:%s#%d", kind, fr.c.ordinals[in])
}

func (fr *Frame) checkSafe(st *State, in ssa.Instruction, kind string, goal *Term) {
	if fr.contract != nil && fr.contract.NoSafety {
		fr.c.addFact(st, goal)
		return
	}
	fr.c.oblige(fr, st, "safe", fr.safeName(in, kind), goal, nil, in.String(), true)
	// after the check the execution continues only if it held
	fr.c.addFact(st, goal)
}

func (fr *Frame) nonNil(st *State, in ssa.Instruction, p *Val) {
	if p.Addr != nil && p.Addr.Kind != AObj {
		return
	}
	x := p.X
	if p.Addr != nil {
		x = p.Addr.Ref
	}
	if x.Op == "app" && (x.Name == "sub" || x.Name == "elem") {
		return
	}
	fr.checkSafe(st, in, "nil", Neq(x, Num(0)))
}

// execInstr executes a non-terminator instruction.
func (fr *Frame) execInstr(st *State, in ssa.Instruction) {
	c := fr.c
	switch x := in.(type) {
	case *ssa.DebugRef:
	case *ssa.Alloc:
		fr.allocAt[x] = true
		et := derefType(x.Type())
		if !x.Heap && fr.isCellAlloc(x) {
			st.cells[x] = zeroVal(et)
			fr.vals[x] = ptrVal(x.Type(), &Addr{Kind: ACell, Cell: x})
			return
		}
		r := c.newRef(st, x.Comment)
		if at, ok := et.Underlying().(*types.Array); ok {
			// zeroed array storage
			fr.zeroArray(st, r, at.Elem(), Num(at.Len()))
			fr.vals[x] = &Val{K: VScalar, T: x.Type(), X: r}
			return
		}
		Heap{st: st, log: curLog}.storeDeref(r, et, zeroVal(et))
		fr.vals[x] = &Val{K: VScalar, T: x.Type(), X: r}
		if _, isStruct := et.Underlying().(*types.Struct); isStruct {
			fr.zeroGhost(st, r)
		}
		if shortTypeKey(et) == "bytes.Buffer" {
			// trusted: the zero bytes.Buffer is an empty, accepting, fault-free stream
			h := Heap{st: st, log: curLog}
			g := c.eng.ghostFields
			for _, z := range []string{"pos", "len", "reads", "writes"} {
				if gf, ok := g[z]; ok {
					h.storeGhost(r, gf, Num(0))
				}
			}
			for _, z := range []string{"accepting", "faultfree"} {
				if gf, ok := g[z]; ok {
					h.storeGhost(r, gf, True)
				}
			}
			if gf, ok := g["short"]; ok {
				h.storeGhost(r, gf, False)
			}
			c.trusted["zero value of bytes.Buffer is an empty accepting stream"] = true
		}
	case *ssa.Store:
		p := fr.get(st, x.Addr)
		v := fr.get(st, x.Val)
		if escapingElemPtr(v) {
			efail("pointer to a struct element of a slice stored (not supported by the struct-of-arrays model)")
		}
		fr.nonNil(st, in, p)
		a := p.Addr
		if a == nil {
			a = &Addr{Kind: AObj, Ref: p.X}
		}
		if g := c.fieldGuard(a); g != nil {
			fr.guardCheck(st, in, g, true, "store")
		} else if a.Guard != nil {
			fr.guardCheckC(st, in, a.Guard, true, "elemstore", a.Ref)
		}
		c.storeAddr(st, a, derefType(x.Addr.Type()), fr.coerce(v, derefType(x.Addr.Type())))
	case *ssa.UnOp:
		fr.vals[x] = fr.execUnOp(st, x)
	case *ssa.BinOp:
		fr.vals[x] = fr.execBinOp(st, x)
	case *ssa.FieldAddr:
		p := fr.get(st, x.X)
		fr.nonNil(st, in, p)
		st0 := derefType(x.X.Type())
		fr.vals[x] = ptrVal(x.Type(), c.fieldAddr(p, st0, x.Field))
	case *ssa.Field:
		v := fr.get(st, x.X)
		if v.K != VStruct && isOpaque(x.X.Type()) {
			// field of an opaque token (reflect.StructField.Name ...): an uninterpreted function of the
			// token, nameable in contracts as the spec function <Type>_<Field>(token)
			ft := x.Type()
			fname := x.X.Type().Underlying().(*types.Struct).Field(x.Field).Name()
			tn := shortTypeKey(x.X.Type())
			tn = tn[strings.LastIndex(tn, ".")+1:]
			if len(comps(ft)) == 1 && comps(ft)[0].sort == SInt {
				r := scalar(ft, App("spec."+tn+"_"+fname, SInt, v.X))
				if isStringType(ft) {
					c.addFact(st, And(Le(Num(0), SLen(r.X)), Le(SLen(r.X), Num(1<<40))))
				}
				fr.vals[x] = r
				return
			}
			nv, facts := freshVal(ft, "of."+fname)
			for _, f := range facts {
				c.addFact(st, f)
			}
			fr.vals[x] = nv
			return
		}
		fr.vals[x] = v.Fs[x.Field]
	case *ssa.IndexAddr:
		base := fr.get(st, x.X)
		idx := fr.get(st, x.Index).X
		switch base.K {
		case VSlice:
			fr.checkSafe(st, in, "index", And(Le(Num(0), idx), Lt(idx, base.Len)))
			fr.vals[x] = ptrVal(x.Type(), &Addr{Kind: AElem, Ref: base.Ref, IdxT: Add(base.Off, idx), ET: elemTypeOf(x.X.Type()), Guard: base.Guard})
		default: // pointer to array
			at := derefType(x.X.Type()).Underlying().(*types.Array)
			fr.nonNil(st, in, base)
			fr.checkSafe(st, in, "index", And(Le(Num(0), idx), Lt(idx, Num(at.Len()))))
			fr.vals[x] = ptrVal(x.Type(), &Addr{Kind: AElem, Ref: base.X, IdxT: idx, ET: at.Elem()})
		}
	case *ssa.Index:
		base := fr.get(st, x.X)
		idx := fr.get(st, x.Index).X
		if isStringType(x.X.Type()) {
			fr.checkSafe(st, in, "index", And(Le(Num(0), idx), Lt(idx, SLen(base.X))))
			r := scalar(x.Type(), SAt(base.X, idx))
			c.addFact(st, inRange(r.X, 8, false))
			fr.vals[x] = r
			return
		}
		efail("Index on array value not supported")
	case *ssa.Slice:
		fr.vals[x] = fr.execSlice(st, x)
	case *ssa.MakeSlice:
		ln := fr.get(st, x.Len).X
		cp := fr.get(st, x.Cap).X
		fr.checkSafe(st, in, "make", And(Le(Num(0), ln), Le(ln, cp)))
		fr.allocObligation(st, in, cp, elemTypeOf(x.Type()))
		r := c.newRef(st, "mk")
		et := elemTypeOf(x.Type())
		fr.zeroArray(st, r, et, cp)
		fr.vals[x] = &Val{K: VSlice, T: x.Type(), Ref: r, Off: Num(0), Len: ln, Cap: cp}
	case *ssa.MakeMap:
		if x.Reserve != nil {
			n := fr.get(st, x.Reserve).X
			fr.allocObligation(st, in, n, nil)
		}
		r := c.newRef(st, "map")
		mt := x.Type().Underlying().(*types.Map)
		has, _, ln := mapNames(mt)
		hm := st.hget(has, SArr(SInt, SArr(SInt, SBool)))
		emp := App("emptyset", SArr(SInt, SBool))
		st.hset(has, Store(hm, r, emp))
		lm := st.hget(ln, SArr(SInt, SInt))
		st.hset(ln, Store(lm, r, Num(0)))
		fr.vals[x] = scalar(x.Type(), r)
	case *ssa.MakeChan:
		r := c.newRef(st, "chan")
		fr.zeroGhost(st, r)
		fr.vals[x] = scalar(x.Type(), r)
	case *ssa.MakeInterface:
		v := fr.get(st, x.X)
		b := c.box(st, v, x.X.Type())
		b.T = x.Type()
		fr.vals[x] = b
	case *ssa.ChangeInterface:
		v := fr.get(st, x.X)
		fr.vals[x] = &Val{K: VIface, T: x.Type(), Tag: v.Tag, Box: v.Box}
	case *ssa.ChangeType:
		v := fr.get(st, x.X)
		nv := *v
		nv.T = x.Type()
		fr.vals[x] = &nv
	case *ssa.Convert:
		fr.vals[x] = fr.execConvert(st, x)
	case *ssa.TypeAssert:
		fr.vals[x] = fr.execTypeAssert(st, x)
	case *ssa.Extract:
		t := fr.get(st, x.Tuple)
		fr.vals[x] = t.Fs[x.Index]
	case *ssa.MakeClosure:
		fn := x.Fn.(*ssa.Function)
		fv := &FuncVal{Fn: fn}
		for _, b := range x.Bindings {
			fv.Bindings = append(fv.Bindings, fr.get(st, b))
		}
		id := fnID("closure:" + fn.RelString(nil))
		fr.vals[x] = &Val{K: VScalar, T: x.Type(), X: id, Fn: fv}
	case *ssa.Lookup:
		fr.vals[x] = fr.execLookup(st, x)
	case *ssa.MapUpdate:
		m := fr.get(st, x.Map)
		fr.guardCheckC(st, in, m.Guard, true, "mapupdate", m.X)
		fr.checkSafe(st, in, "mapwrite", Neq(m.X, Num(0)))
		mt := x.Map.Type().Underlying().(*types.Map)
		c.mapSet(st, m.X, mt, fr.get(st, x.Key), fr.coerce(fr.get(st, x.Value), mt.Elem()))
	case *ssa.Call:
		fr.vals[x] = fr.execCall(st, x, x.Common())
	case *ssa.Defer:
		e := deferEntry{call: x, guard: st.pc}
		cc := x.Common()
		if !cc.IsInvoke() {
			if f, isF := cc.Value.(*ssa.Function); isF {
				e.fnv = &Val{K: VScalar, T: f.Type(), X: fnID(f.RelString(nil)), Fn: &FuncVal{Fn: f}}
			} else if _, isB := cc.Value.(*ssa.Builtin); !isB {
				e.fnv = fr.get(st, cc.Value)
			}
		} else {
			e.fnv = fr.get(st, cc.Value)
		}
		for _, a := range cc.Args {
			e.args = append(e.args, fr.get(st, a))
		}
		st.defers = append(st.defers, e)
	case *ssa.RunDefers:
		fr.runDefers(st)
	case *ssa.Go:
		fr.execGo(st, x)
	case *ssa.Range:
		fr.vals[x] = fr.execRange(st, x)
	case *ssa.Next:
		fr.vals[x] = fr.execNext(st, x)
	case *ssa.Send:
		fr.execSend(st, x)
	case *ssa.Select:
		fr.vals[x] = fr.execSelect(st, x)
	case *ssa.Phi:
		efail("phi in naive form not supported: %s", x)
	default:
		efail("unsupported instruction %T: %s", in, in)
	}
}

func (fr *Frame) isCellAlloc(a *ssa.Alloc) bool {
	if v, ok := fr.isCell[a]; ok {
		return v
	}
	v := !escapes(a)
	if _, isArr := derefType(a.Type()).Underlying().(*types.Array); isArr {
		v = false
	}
	fr.isCell[a] = v
	return v
}

// coerce adapts static function values etc. when stored to typed locations (identity for now).
func (fr *Frame) coerce(v *Val, t types.Type) *Val { return v }

func (fr *Frame) zeroArray(st *State, ref *Term, et types.Type, n *Term) {
	h := Heap{st: st, log: curLog}
	z := flatten(zeroVal(et))
	cs := comps(et)
	arrs := make([]*Term, len(cs))
	for i, cp := range cs {
		a := Fresh("zero"+cp.suffix, SArr(SInt, cp.sort))
		j := BVar("j", SInt)
		fr.c.addDef(Forall([]*Term{j}, [][]*Term{{Select(a, j)}}, Eq(Select(a, j), z[i])))
		arrs[i] = a
	}
	h.setElemArrays(ref, et, arrs)
}

func (fr *Frame) execUnOp(st *State, x *ssa.UnOp) *Val {
	c := fr.c
	v := fr.get(st, x.X)
	switch x.Op {
	case token.MUL:
		fr.nonNil(st, x, v)
		a := v.Addr
		if a == nil {
			a = &Addr{Kind: AObj, Ref: v.X}
		}
		if g := c.fieldGuard(a); g != nil {
			fr.guardCheck(st, x, g, false, "load")
		} else if a.Guard != nil {
			fr.guardCheckC(st, x, a.Guard, false, "elemload", a.Ref)
		}
		return c.loadAddr(st, a, x.Type())
	case token.NOT:
		return scalar(x.Type(), Not(v.X))
	case token.SUB:
		bits, signed, _ := intInfo(x.Type())
		if isFloatType(x.Type()) {
			return scalar(x.Type(), App("fneg", SInt, v.X))
		}
		return scalar(x.Type(), wrap(Neg(v.X), bits, signed))
	case token.XOR:
		bits, signed, _ := intInfo(x.Type())
		if signed {
			return scalar(x.Type(), Sub(Neg(v.X), Num(1)))
		}
		return scalar(x.Type(), Sub(NumBig(new(big.Int).Sub(pow2(bits), big.NewInt(1))), v.X))
	case token.ARROW:
		return fr.execRecv(st, x, v)
	}
	efail("unsupported unary op %s", x.Op)
	return nil
}

func (fr *Frame) execBinOp(st *State, x *ssa.BinOp) *Val {
	a := fr.get(st, x.X)
	b := fr.get(st, x.Y)
	t := x.Type()
	switch x.Op {
	case token.EQL, token.NEQ:
		var r *Term
		if cst, ok := x.Y.(*ssa.Const); ok && cst.Value == nil && a.K == VIface {
			r = Eq(a.Tag, Num(0))
		} else if cst, ok := x.X.(*ssa.Const); ok && cst.Value == nil && b.K == VIface {
			r = Eq(b.Tag, Num(0))
		} else if a.K == VIface && b.K == VIface {
			// comparing two interface values panics when both hold the same non-comparable dynamic
			// type (slices, maps, functions). Obligation unless no implementer of the static
			// interface type is non-comparable; error values are assumed comparable.
			if fr.contract != nil && !fr.contract.NoSafety && fr.c.dry == 0 && ifaceMayHoldUncomparable(fr.c.eng, x.X.Type()) && ifaceMayHoldUncomparable(fr.c.eng, x.Y.Type()) {
				fr.checkSafe(st, x, "ifacecmp", Or(Neq(a.Tag, b.Tag), Eq(a.Tag, Num(0)), App("comparable", SBool, a.Tag)))
			}
			r = And(Eq(a.Tag, b.Tag), Eq(a.Box, b.Box))
		} else if a.K == VSlice || b.K == VSlice {
			// comparison with nil only
			if a.K == VSlice {
				r = Eq(a.Ref, Num(0))
			} else {
				r = Eq(b.Ref, Num(0))
			}
		} else {
			r = eqVal(a, b)
		}
		if x.Op == token.NEQ {
			r = Not(r)
		}
		return scalar(t, r)
	}
	if isStringType(x.X.Type()) {
		switch x.Op {
		case token.ADD:
			r := SCat(a.X, b.X)
			fr.c.addFact(st, Eq(SLen(r), Add(SLen(a.X), SLen(b.X))))
			return scalar(t, r)
		case token.LSS, token.LEQ, token.GTR, token.GEQ:
			return scalar(t, App("strcmp."+x.Op.String(), SBool, a.X, b.X))
		}
	}
	if isFloatType(x.X.Type()) {
		switch x.Op {
		case token.LSS, token.LEQ, token.GTR, token.GEQ:
			return scalar(t, App("fcmp."+x.Op.String(), SBool, a.X, b.X))
		default:
			return scalar(t, App("fop."+x.Op.String(), SInt, a.X, b.X))
		}
	}
	if isBoolType(x.X.Type()) {
		switch x.Op {
		case token.AND, token.LAND:
			return scalar(t, And(a.X, b.X))
		case token.OR, token.LOR:
			return scalar(t, Or(a.X, b.X))
		}
	}
	switch x.Op {
	case token.LSS:
		return scalar(t, Lt(a.X, b.X))
	case token.LEQ:
		return scalar(t, Le(a.X, b.X))
	case token.GTR:
		return scalar(t, Gt(a.X, b.X))
	case token.GEQ:
		return scalar(t, Ge(a.X, b.X))
	}
	bits, signed, ok := intInfo(t)
	if !ok {
		efail("unsupported binop %s on %s", x.Op, t)
	}
	var r *Term
	switch x.Op {
	case token.ADD:
		r = wrap(Add(a.X, b.X), bits, signed)
	case token.SUB:
		r = wrap(Sub(a.X, b.X), bits, signed)
	case token.MUL:
		r = wrap(Mul(a.X, b.X), bits, signed)
	case token.QUO, token.REM:
		fr.checkSafe(st, x, "div", Neq(b.X, Num(0)))
		// Go truncates toward zero; SMT div is Euclidean. For non-negative operands they agree.
		q := Div(a.X, b.X)
		m := Mod(a.X, b.X)
		if signed {
			nonneg := And(Le(Num(0), a.X), Lt(Num(0), b.X))
			tq := App("truncdiv", SInt, a.X, b.X)
			tm := App("truncrem", SInt, a.X, b.X)
			q = Ite(nonneg, q, tq)
			m = Ite(nonneg, m, tm)
		}
		if x.Op == token.QUO {
			r = wrap(q, bits, signed)
		} else {
			r = m
		}
	case token.SHL:
		if b.X.IsNum() && b.X.NumVal().IsInt64() && b.X.NumVal().Int64() < 128 {
			r = wrap(Mul(a.X, NumBig(pow2(int(b.X.NumVal().Int64())))), bits, signed)
		} else {
			r = App("shl", SInt, a.X, b.X)
			fr.c.addFact(st, inRange(r, bits, signed))
		}
	case token.SHR:
		if b.X.IsNum() && b.X.NumVal().IsInt64() && b.X.NumVal().Int64() < 128 {
			r = Div(a.X, NumBig(pow2(int(b.X.NumVal().Int64()))))
		} else {
			r = App("shr", SInt, a.X, b.X)
			fr.c.addFact(st, inRange(r, bits, signed))
		}
	case token.AND:
		// x & (2^k - 1) on non-negative x is mod 2^k
		if m := maskBits(b.X); m >= 0 && !signed {
			r = Mod(a.X, NumBig(pow2(m)))
		} else if m := maskBits(a.X); m >= 0 && !signed {
			r = Mod(b.X, NumBig(pow2(m)))
		} else {
			r = App("band", SInt, a.X, b.X)
			fr.c.addFact(st, inRange(r, bits, signed))
			if !signed {
				fr.c.addFact(st, And(Le(r, a.X), Le(r, b.X)))
			}
		}
	case token.OR:
		r = App("bor", SInt, a.X, b.X)
		fr.c.addFact(st, inRange(r, bits, signed))
		if !signed {
			fr.c.addFact(st, And(Le(a.X, r), Le(b.X, r)))
		}
	case token.XOR:
		r = App("bxor", SInt, a.X, b.X)
		fr.c.addFact(st, inRange(r, bits, signed))
	case token.AND_NOT:
		r = App("bandnot", SInt, a.X, b.X)
		fr.c.addFact(st, inRange(r, bits, signed))
	default:
		efail("unsupported binop %s", x.Op)
	}
	return scalar(t, r)
}

func maskBits(t *Term) int {
	if !t.IsNum() {
		return -1
	}
	n := new(big.Int).Add(t.NumVal(), big.NewInt(1))
	if n.Sign() <= 0 {
		return -1
	}
	k := n.BitLen() - 1
	if pow2(k).Cmp(n) == 0 {
		return k
	}
	return -1
}

func (fr *Frame) execSlice(st *State, x *ssa.Slice) *Val {
	base := fr.get(st, x.X)
	var lo, hi, mx *Term
	if x.Low != nil {
		lo = fr.get(st, x.Low).X
	} else {
		lo = Num(0)
	}
	if isStringType(x.X.Type()) {
		if x.High != nil {
			hi = fr.get(st, x.High).X
		} else {
			hi = SLen(base.X)
		}
		fr.checkSafe(st, x, "slice", And(Le(Num(0), lo), Le(lo, hi), Le(hi, SLen(base.X))))
		r := App("ssub", SInt, base.X, lo, hi)
		fr.c.addFact(st, Eq(SLen(r), Sub(hi, lo)))
		j := BVar("j", SInt)
		fr.c.addFact(st, Forall([]*Term{j}, [][]*Term{{SAt(r, j)}}, Implies(And(Le(Num(0), j), Lt(j, Sub(hi, lo))), Eq(SAt(r, j), SAt(base.X, Add(lo, j))))))
		return scalar(x.Type(), r)
	}
	var ref, off, ln, cp *Term
	switch base.K {
	case VSlice:
		ref, off, ln, cp = base.Ref, base.Off, base.Len, base.Cap
	default: // pointer to array
		at := derefType(x.X.Type()).Underlying().(*types.Array)
		fr.nonNil(st, x, base)
		ref, off, ln, cp = base.X, Num(0), Num(at.Len()), Num(at.Len())
	}
	if x.High != nil {
		hi = fr.get(st, x.High).X
	} else {
		hi = ln
	}
	if x.Max != nil {
		mx = fr.get(st, x.Max).X
	} else {
		mx = cp
	}
	fr.checkSafe(st, x, "slice", And(Le(Num(0), lo), Le(lo, hi), Le(hi, mx), Le(mx, cp)))
	return &Val{K: VSlice, T: x.Type(), Ref: ref, Off: Add(off, lo), Len: Sub(hi, lo), Cap: Sub(mx, lo)}
}

func (fr *Frame) execConvert(st *State, x *ssa.Convert) *Val {
	v := fr.get(st, x.X)
	from, to := x.X.Type(), x.Type()
	fb, fs, fok := intInfo(from)
	tb, ts, tok := intInfo(to)
	_ = fb
	_ = fs
	c := fr.c
	switch {
	case fok && tok:
		return scalar(to, wrap(v.X, tb, ts))
	case isStringType(from) && isStringType(to):
		return scalar(to, v.X)
	case isFloatType(from) && isFloatType(to):
		if from.Underlying() == to.Underlying() {
			return scalar(to, v.X)
		}
		return scalar(to, App("fconv."+shortTypeKey(to.Underlying()), SInt, v.X))
	case fok && isFloatType(to):
		return scalar(to, App("itof."+shortTypeKey(to.Underlying()), SInt, v.X))
	case isFloatType(from) && tok:
		r := App("ftoi."+shortTypeKey(to.Underlying()), SInt, v.X)
		c.addFact(st, inRange(r, tb, ts))
		return scalar(to, r)
	}
	if isStringType(to) {
		if sl, ok := from.Underlying().(*types.Slice); ok {
			// string([]byte)
			s := Fresh("str", SInt)
			c.addFact(st, Eq(SLen(s), v.Len))
			arr := Heap{st: st}.elemArrays(v.Ref, sl.Elem())[0]
			j := BVar("j", SInt)
			c.addFact(st, Forall([]*Term{j}, [][]*Term{{SAt(s, j)}}, Implies(And(Le(Num(0), j), Lt(j, v.Len)), Eq(SAt(s, j), Select(arr, Add(v.Off, j))))))
			return scalar(to, s)
		}
		if fok { // string(rune)
			return scalar(to, App("runestr", SInt, v.X))
		}
	}
	if sl, ok := to.Underlying().(*types.Slice); ok && isStringType(from) {
		// []byte(string)
		r := c.newRef(st, "bytes")
		arr := Fresh("strbytes", SArr(SInt, SInt))
		j := BVar("j", SInt)
		c.addFact(st, Forall([]*Term{j}, [][]*Term{{Select(arr, j)}}, Implies(And(Le(Num(0), j), Lt(j, SLen(v.X))), Eq(Select(arr, j), SAt(v.X, j)))))
		c.addFact(st, Forall([]*Term{j}, [][]*Term{{Select(arr, j)}}, And(Le(Num(0), Select(arr, j)), Le(Select(arr, j), Num(255)))))
		Heap{st: st, log: curLog}.setElemArrays(r, sl.Elem(), []*Term{arr})
		return &Val{K: VSlice, T: to, Ref: r, Off: Num(0), Len: SLen(v.X), Cap: SLen(v.X)}
	}
	if _, ok := to.Underlying().(*types.Pointer); ok {
		nv := *v
		nv.T = to
		return &nv
	}
	if bt, ok := to.Underlying().(*types.Basic); ok && bt.Kind() == types.UnsafePointer {
		nv := *v
		nv.T = to
		return &nv
	}
	efail("unsupported conversion %s -> %s", from, to)
	return nil
}

func (fr *Frame) execTypeAssert(st *State, x *ssa.TypeAssert) *Val {
	c := fr.c
	v := fr.get(st, x.X)
	var ok *Term
	var res *Val
	if it, isIface := x.AssertedType.Underlying().(*types.Interface); isIface {
		// assertion to an interface type: holds iff the dynamic type implements it
		if it.NumMethods() == 0 {
			ok = Neq(v.Tag, Num(0))
		} else {
			pred := "implements." + shortTypeKey(x.AssertedType)
			ok = And(Neq(v.Tag, Num(0)), App(pred, SBool, v.Tag))
			implIfaces[pred] = it // ground facts per registered dynamic type are added when the query is built
		}
		res = &Val{K: VIface, T: x.AssertedType, Tag: v.Tag, Box: v.Box}
	} else {
		ok = Eq(v.Tag, typeTag(x.AssertedType))
		res = c.unbox(st, v, x.AssertedType)
		// the unboxed value is well-typed when the assertion holds
		for _, f := range typeInv(res) {
			c.addFact(st, Implies(ok, f))
		}
	}
	if x.CommaOk {
		z := zeroVal(x.AssertedType)
		r := iteVal(ok, res, z)
		if r.T == nil {
			r.T = x.AssertedType
		}
		return &Val{K: VTuple, T: x.Type(), Fs: []*Val{r, scalar(types.Typ[types.Bool], ok)}}
	}
	fr.checkSafe(st, x, "typeassert", ok)
	return res
}

func (fr *Frame) execLookup(st *State, x *ssa.Lookup) *Val {
	c := fr.c
	m := fr.get(st, x.X)
	k := fr.get(st, x.Index)
	if isStringType(x.X.Type()) {
		fr.checkSafe(st, x, "index", And(Le(Num(0), k.X), Lt(k.X, SLen(m.X))))
		return scalar(x.Type(), SAt(m.X, k.X))
	}
	mt := x.X.Type().Underlying().(*types.Map)
	fr.guardCheckC(st, x, m.Guard, false, "lookup", m.X)
	has := And(Neq(m.X, Num(0)), c.mapHas(st, m.X, mt, k))
	v := c.mapGet(st, m.X, mt, k)
	v = iteVal(has, v, zeroVal(mt.Elem()))
	if v.T == nil {
		v.T = mt.Elem()
	}
	c.heapValFacts(st, v)
	if x.CommaOk {
		return &Val{K: VTuple, T: x.Type(), Fs: []*Val{v, scalar(types.Typ[types.Bool], has)}}
	}
	return v
}

// allocObligation: data-dependent allocation sizes must be bounded (C07); enabled per contract.
func (fr *Frame) allocObligation(st *State, in ssa.Instruction, n *Term, et types.Type) {
	if fr.contract == nil {
		return
	}
	lim, ok := fr.contract.Opts["alloclimit"]
	if !ok || n.IsNum() {
		return
	}
	l, ok2 := new(big.Int).SetString(lim, 10)
	if !ok2 {
		if v, ok3 := fr.c.eng.consts[lim]; ok3 {
			l = v
		} else {
			fr.c.errorf("alloclimit %q is not a number or const", lim)
			return
		}
	}
	fr.c.oblige(fr, st, "alloc", fmt.Sprintf("alloc#%d", fr.c.ordinals[in]), Le(n, NumBig(l)), []string{"C07"}, in.String(), false)
}

// ---- channels, goroutines, ranges (minimal models)

func (fr *Frame) execRecv(st *State, x *ssa.UnOp, ch *Val) *Val {
	if fr.contract != nil && fr.depth == 0 && fr.contract.Opts["noplainrecv"] == "yes" && fr.c.dry == 0 {
		// mechanism obligation (C11): this function may wait only inside a select that also watches
		// the closure / cancellation channels; a plain receive waits for one peer unconditionally
		fr.c.oblige(fr, st, "safe", fmt.Sprintf("safe:plainrecv#%d", fr.c.ordinals[x]), False, []string{"C11"}, "blocking receive outside a select: "+x.String(), false)
	}
	fr.blockingCheck(st, x, "receive")
	et := x.X.Type().Underlying().(*types.Chan).Elem()
	v, facts := freshVal(et, "recv")
	for _, f := range facts {
		fr.c.addFact(st, f)
	}
	for _, f := range allocFacts(v, st.ac) {
		fr.c.addFact(st, f)
	}
	if fr.contract != nil && fr.contract.Opts["recv_nonnil"] == "yes" {
		// environment assumption (listed): senders only put non-nil pointers into this queue
		for _, t := range flatten(v) {
			_ = t
		}
		var nn func(v *Val)
		nn = func(v *Val) {
			switch v.K {
			case VScalar:
				if v.T != nil {
					if _, ok := v.T.Underlying().(*types.Pointer); ok {
						fr.c.addFact(st, Neq(v.X, Num(0)))
					}
				}
			case VIface:
				fr.c.addFact(st, Neq(v.Tag, Num(0)))
			case VStruct:
				for _, f := range v.Fs {
					nn(f)
				}
			}
		}
		nn(v)
		fr.c.trusted["ASSUMED in "+shortFn(fr.fn.RelString(nil))+": values received from channels hold non-nil pointers / interfaces (opt recv_nonnil)"] = true
	}
	if x.CommaOk {
		ok := Fresh("recvok", SBool)
		fr.noteSeenClosed(st, ch, Not(ok))
		return &Val{K: VTuple, T: x.Type(), Fs: []*Val{v, scalar(types.Typ[types.Bool], ok)}}
	}
	return v
}

// noteSeenClosed: ghost chseen(ch) — this goroutine has itself observed the channel closed (a
// receive returned ok == false). Unlike chclosed it is not subject to interference.
func (fr *Frame) noteSeenClosed(st *State, ch *Val, cond *Term) {
	gf, ok := fr.c.eng.ghostFields["chseen"]
	if !ok {
		return
	}
	h := Heap{st: st}
	old := h.loadGhost(ch.X, gf).X
	h.storeGhost(ch.X, gf, Or(old, cond))
}

func (fr *Frame) execSend(st *State, x *ssa.Send) {
	fr.blockingCheck(st, x, "send")
	ch := fr.get(st, x.Chan)
	gf, ok := fr.c.eng.ghostFields["chclosed"]
	if ok {
		closed := Heap{st: st}.loadGhost(ch.X, gf).X
		fr.checkSafe(st, x, "send", Not(closed))
	}
}

func (fr *Frame) execSelect(st *State, x *ssa.Select) *Val {
	// nondeterministic choice among cases; sends check "not closed"
	tt := x.Type().(*types.Tuple)
	idx := Fresh("selidx", SInt)
	lo := int64(0)
	if !x.Blocking {
		lo = -1
	}
	fr.c.addFact(st, And(Le(Num(lo), idx), Lt(idx, Num(int64(len(x.States))))))
	vals := []*Val{scalar(tt.At(0).Type(), idx), scalar(tt.At(1).Type(), Fresh("selok", SBool))}
	gf, hasGhost := fr.c.eng.ghostFields["chclosed"]
	for _, s := range x.States {
		if s.Dir == types.SendOnly {
			fr.callSiteClauses(st, x, nil, []*Val{fr.get(st, s.Chan), fr.get(st, s.Send)})
			break
		}
	}
	for i, s := range x.States {
		ch := fr.get(st, s.Chan)
		if s.Dir == types.SendOnly && hasGhost {
			closed := Heap{st: st}.loadGhost(ch.X, gf).X
			fr.c.oblige(fr, st, "safe", fmt.Sprintf("safe:selectsend#%d.%d", fr.c.ordinals[x], i), Implies(Eq(idx, Num(int64(i))), Not(closed)), nil, x.String(), true)
		}
	}
	for i, s := range x.States {
		if s.Dir == types.RecvOnly {
			fr.noteSeenClosed(st, fr.get(st, s.Chan), And(Eq(idx, Num(int64(i))), Not(vals[1].X)))
		}
	}
	for i := 2; i < tt.Len(); i++ {
		v, facts := freshVal(tt.At(i).Type(), "selrecv")
		for _, f := range facts {
			fr.c.addFact(st, f)
		}
		for _, f := range allocFacts(v, st.ac) {
			fr.c.addFact(st, f)
		}
		if fr.contract != nil && fr.contract.Opts["recv_nonnil"] == "yes" && v.K == VScalar && v.T != nil {
			if _, ok := v.T.Underlying().(*types.Pointer); ok {
				// a successful receive (ok) yields what a sender put in: assumed non-nil (listed)
				fr.c.addFact(st, Implies(vals[1].X, Neq(v.X, Num(0))))
				fr.c.trusted["ASSUMED in "+shortFn(fr.fn.RelString(nil))+": values received from channels hold non-nil pointers / interfaces (opt recv_nonnil)"] = true
			}
		}
		if fr.contract != nil && fr.contract.Opts["recv_nonnil"] == "yes" && v.K == VIface {
			// same assumption for interface values received in a select (e.g. the error a closer pushed)
			fr.c.addFact(st, Implies(Eq(idx, Num(int64(i-2))), Neq(v.Tag, Num(0))))
			fr.c.trusted["ASSUMED in "+shortFn(fr.fn.RelString(nil))+": values received from channels hold non-nil pointers / interfaces (opt recv_nonnil)"] = true
		}
		vals = append(vals, v)
	}
	return &Val{K: VTuple, T: tt, Fs: vals}
}

func (fr *Frame) execRange(st *State, x *ssa.Range) *Val {
	// iterator token: for maps we keep a ghost "visited" set per Range instruction
	it := Fresh("iter", SInt)
	if _, ok := x.X.Type().Underlying().(*types.Map); ok {
		fr.guardCheckC(st, x, fr.get(st, x.X).Guard, false, "range", fr.get(st, x.X).X)
		vis := "v:" + fr.rangeKey(x)
		st.hset(vis, App("emptyset", SArr(SInt, SBool)))
		fr.rangeMaps[x] = fr.get(st, x.X)
	} else {
		efail("range over %s not supported", x.X.Type())
	}
	return scalar(x.Type(), it)
}

func (fr *Frame) rangeKey(x *ssa.Range) string {
	return fmt.Sprintf("%s.visited#%d", fr.fn.Name(), fr.rangeOrd(x))
}

func (fr *Frame) rangeOrd(x *ssa.Range) int {
	n := 0
	for _, b := range fr.fn.Blocks {
		for _, in := range b.Instrs {
			if r, ok := in.(*ssa.Range); ok {
				n++
				if r == x {
					return n
				}
			}
		}
	}
	return 0
}

func (fr *Frame) execNext(st *State, x *ssa.Next) *Val {
	c := fr.c
	rg := x.Iter.(*ssa.Range)
	m := fr.rangeMaps[rg]
	if m == nil {
		efail("Next without Range")
	}
	mt := rg.X.Type().Underlying().(*types.Map)
	fr.guardCheckC(st, x, m.Guard, false, "next", m.X)
	vis := "v:" + fr.rangeKey(rg)
	vs := st.hget(vis, SArr(SInt, SBool))
	has, _, _ := mapNames(mt)
	hasArr := Select(st.hget(has, SArr(SInt, SArr(SInt, SBool))), m.X)
	ok := Fresh("nextok", SBool)
	kv, kfacts := freshVal(mt.Key(), "key")
	for _, f := range kfacts {
		c.addFact(st, f)
	}
	kt := mapKeyTerm(kv)
	// ok: key present and not yet visited. !ok: every present key is visited.
	c.addFact(st, Implies(ok, And(Neq(m.X, Num(0)), Select(hasArr, kt), Not(Select(vs, kt))))) // a nil map yields nothing
	j := BVar("k", SInt)
	c.addFact(st, Implies(Not(ok), Forall([]*Term{j}, [][]*Term{{Select(hasArr, j)}}, Implies(Select(hasArr, j), Select(vs, j)))))
	st.hset(vis, Ite(ok, Store(vs, kt, True), vs))
	if curLog != nil {
		*curLog = append(*curLog, writeRec{vis, nil}) // the visited set changes on every iteration
	}
	val := c.mapGet(st, m.X, mt, kv)
	c.heapValFacts(st, val)
	return &Val{K: VTuple, T: x.Type(), Fs: []*Val{scalar(types.Typ[types.Bool], ok), kv, val}}
}

// zeroGhost: ghost state of a freshly allocated object starts at zero / false (ghost counters count
// events since creation).
func (fr *Frame) zeroGhost(st *State, r *Term) {
	h := Heap{st: st, log: curLog}
	for _, name := range fr.c.eng.ghostOrder {
		gf := fr.c.eng.ghostFields[name]
		switch gf.Type {
		case "int":
			h.storeGhost(r, gf, Num(0))
		case "bool":
			h.storeGhost(r, gf, False)
		}
	}
}

var uncomparableCache = map[string]bool{}

// ifaceMayHoldUncomparable: some named type of the loaded program that implements the interface
// type t (by value or by pointer) is not comparable. The error interface is exempt (assumption:
// error values are comparable).
func ifaceMayHoldUncomparable(e *Engine, t types.Type) bool {
	it, ok := t.Underlying().(*types.Interface)
	if !ok {
		return false
	}
	k := typeKey(t)
	if k == "error" {
		return false
	}
	if v, ok := uncomparableCache[k]; ok {
		return v
	}
	res := false
	if it.NumMethods() == 0 {
		res = true // any: everything implements it
	} else {
		for _, p := range e.prog.AllPackages() {
			sc := p.Pkg.Scope()
			for _, n := range sc.Names() {
				tn, ok := sc.Lookup(n).(*types.TypeName)
				if !ok || tn.IsAlias() {
					continue
				}
				T := tn.Type()
				if _, isIface := T.Underlying().(*types.Interface); isIface {
					continue
				}
				if types.Implements(T, it) && !types.Comparable(T) {
					res = true
				}
			}
		}
	}
	uncomparableCache[k] = res
	return res
}
