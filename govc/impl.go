package main

import (
	"go/types"
	"sort"

	"golang.org/x/tools/go/ssa"
)

type typesInterface = types.Interface

func (e *Engine) VerifyFunctionAs(fn *ssa.Function, ct *Contract, pkg *types.Package) *FnCtx {
	return e.VerifyFunction(fn, ct)
}

// findImplementers returns the concrete methods named `method` of every /repo type implementing it.
func (e *Engine) findImplementers(it *types.Interface, method string) []*ssa.Function {
	var out []*ssa.Function
	seen := map[*ssa.Function]bool{}
	var paths []string
	for p := range e.pkgByPath {
		paths = append(paths, p)
	}
	sort.Strings(paths)
	for _, path := range paths {
		pkg := e.pkgByPath[path]
		if len(path) < 22 || path[:22] != "github.com/lugu/qiloop" {
			continue
		}
		names := pkg.Scope().Names()
		for _, n := range names {
			tn, ok := pkg.Scope().Lookup(n).(*types.TypeName)
			if !ok || tn.IsAlias() {
				continue
			}
			if _, isIface := tn.Type().Underlying().(*types.Interface); isIface {
				continue
			}
			for _, t := range []types.Type{tn.Type(), types.NewPointer(tn.Type())} {
				if !types.Implements(t, it) {
					continue
				}
				sel := e.prog.MethodSets.MethodSet(t).Lookup(pkg, method)
				if sel == nil {
					continue
				}
				fn := e.prog.MethodValue(sel)
				if fn == nil || seen[fn] || fn.Synthetic != "" {
					continue
				}
				seen[fn] = true
				out = append(out, fn)
				break
			}
		}
	}
	return out
}

type replayResult struct {
	Reproduced bool   `json:"reproduced"`
	Shape      string `json:"shape,omitempty"`
	Inputs     string `json:"inputs,omitempty"`
	Observed   string `json:"observed,omitempty"`
	Test       string `json:"test,omitempty"`
	Note       string `json:"note,omitempty"`
}
