package main

// check: the registered entry point. Verifies the cone of one property, writes evidence,
// replay files and VIOLATION / KNOWN-FINDING lines.

import (
	"encoding/json"
	"flag"
	"fmt"
	"os"
	"path/filepath"
	"sort"
	"strconv"
	"strings"
	"time"

	"golang.org/x/tools/go/ssa"
)

type knownFinding struct {
	Property   string `json:"property"`
	Obligation string `json:"obligation"` // "<function key>/<obligation name>"
	What       string `json:"what"`
	Status     string `json:"status"` // known | fixed
	Commit     string `json:"commit,omitempty"`
	Replay     string `json:"replay,omitempty"`
}

type oblReport struct {
	Function   string  `json:"function"`
	Obligation string  `json:"obligation"`
	Kind       string  `json:"kind"`
	Clause     string  `json:"clause,omitempty"`
	Status     string  `json:"status"`
	Solver     string  `json:"solver"`
	Seconds    float64 `json:"seconds"`
	SMTFile    string  `json:"smt_file,omitempty"`
}

func hasTag(tags []string, p string) bool {
	for _, t := range tags {
		if t == p {
			return true
		}
	}
	return false
}

func shortFn(k string) string { return strings.ReplaceAll(k, "github.com/lugu/qiloop/", "") }

func cmdCheck(args []string) int {
	fs := flag.NewFlagSet("check", flag.ExitOnError)
	repo := fs.String("repo", "/repo", "")
	verif := fs.String("verif", "/verif", "")
	prop := fs.String("prop", "", "property id")
	tier := fs.String("tier", "quick", "quick|thorough")
	pkgs := fs.String("pkgs", "./...", "")
	verbose := fs.Bool("v", false, "")
	noReplay := fs.Bool("noreplay", false, "skip counterexample replay")
	outRoot := fs.String("outroot", "", "write out/, replays/, evidence/ under this directory instead of --verif (self-tests)")
	fs.Parse(args)
	if *outRoot == "" {
		*outRoot = *verif
	}
	if *prop == "" {
		fmt.Fprintln(os.Stderr, "check: --prop required")
		return 2
	}
	if t := os.Getenv("VERIF_TIER"); t == "quick" || t == "thorough" {
		*tier = t
	}
	seed, _ := strconv.Atoi(os.Getenv("VERIF_SEED"))
	t0 := time.Now()
	outDir := filepath.Join(*outRoot, "out", *prop)
	os.RemoveAll(outDir)
	os.MkdirAll(outDir, 0o755)
	replayDir := filepath.Join(*outRoot, "replays", *prop)
	os.RemoveAll(replayDir)
	os.MkdirAll(replayDir, 0o755)
	evidencePath := filepath.Join(*outRoot, "evidence", *prop+".json")
	os.MkdirAll(filepath.Dir(evidencePath), 0o755)

	violations := 0
	violate := func(replay string, noInput bool) {
		violations++
		line := fmt.Sprintf("VIOLATION property=%s replay=%s", *prop, replay)
		if noInput {
			line += " no-failing-input-found"
		}
		fmt.Println(line)
	}
	writeReplay := func(name string, body map[string]interface{}) string {
		fn := strings.NewReplacer("/", "_", "(", "", ")", "", "*", "", " ", "", ":", "-", "$", "-").Replace(name) + ".json"
		p := filepath.Join(replayDir, fn)
		body["property"] = *prop
		data, _ := json.MarshalIndent(body, "", " ")
		os.WriteFile(p, data, 0o644)
		return p
	}
	nEngineErr := 0
	engineFail := func(what, detail string) {
		nEngineErr++
		p := writeReplay(fmt.Sprintf("engine-error-%d_%s", nEngineErr, what), map[string]interface{}{"status": "engine-error", "obligation": what, "detail": detail})
		violate(p, true)
	}

	eng, err := LoadEngine(*repo, filepath.Join(*verif, "trusted"), strings.Split(*pkgs, ","))
	if err != nil {
		engineFail("load", err.Error())
		writeEvidence(evidencePath, *prop, *tier, seed, levelOf(*prop), nil, nil, nil, nil, nil, time.Since(t0).Seconds(), violations, "load failed: "+err.Error(), nil)
		return 1
	}
	eng.guardIndex() // validates the guarded_by declarations (may add load errors)
	for _, e := range eng.loadErrs {
		engineFail("contracts", e)
	}
	for _, e := range eng.buildAxioms() {
		engineFail("axioms", e)
	}
	loadSecs := time.Since(t0).Seconds()

	// known findings
	var known []knownFinding
	if data, err := os.ReadFile(filepath.Join(*verif, "known_findings.json")); err == nil {
		if err := json.Unmarshal(data, &known); err != nil {
			engineFail("known_findings", err.Error())
		}
	}
	isKnown := func(obl string) *knownFinding {
		for i := range known {
			if known[i].Property == *prop && known[i].Status == "known" && known[i].Obligation == obl {
				return &known[i]
			}
		}
		return nil
	}

	// audited dead code: return paths that the assumptions legitimately refute (e.g. error handling
	// after a write into an in-memory buffer that cannot fail)
	deadPaths := map[string]string{}
	deadSrc := map[string]string{}
	var deadNoted []string
	if data, err := os.ReadFile(filepath.Join(*verif, "dead_paths.json")); err == nil {
		var dl []struct{ Path, Reason, Src string }
		if err := json.Unmarshal(data, &dl); err != nil {
			engineFail("dead_paths", err.Error())
		}
		for _, d := range dl {
			if d.Src != "" {
				// keyed by function + source text of the return statement: survives renumbering
				fn := d.Path
				if i := strings.Index(fn, "/cover/"); i >= 0 {
					fn = fn[:i]
				}
				deadSrc[fn+"|"+d.Src] = d.Reason
			}
			deadPaths[d.Path] = d.Reason
		}
	}
	// cone: roots tagged with the property, closed under used /repo contracts
	var queue []string
	inCone := map[string]bool{}
	for k, ct := range eng.contracts {
		if hasTag(ct.Tags, *prop) && !ct.IsTrustedFile {
			queue = append(queue, k)
		}
	}
	sort.Strings(queue)
	for _, k := range queue {
		inCone[k] = true
	}
	if len(queue) == 0 {
		engineFail("cone", "no contract is tagged with "+*prop)
	}
	var ctxs []*FnCtx
	var allObls []*Obligation
	var functions []string
	var assumedContracts []string
	trustedUsed := map[string]bool{}
	unknownCalls := map[string]bool{}
	modelNotes := map[string]bool{}
	for len(queue) > 0 {
		k := queue[0]
		queue = queue[1:]
		ct := eng.contracts[k]
		fn := eng.funcs[k]
		if fn == nil {
			p := writeReplay("missing_"+k, map[string]interface{}{"status": "missing-function", "obligation": "missing/" + shortFn(k),
				"detail": "the contract " + k + " (" + ct.File + ") names a function that no longer exists in the tree"})
			violate(p, true)
			continue
		}
		if ct.Trusted {
			assumedContracts = append(assumedContracts, shortFn(k)+" (contract assumed, body not verified)")
			continue
		}
		if ct.implOf != nil && hasTag(ct.implOf.Tags, *prop) {
			continue // verified below against its interface contract (implObligations)
		}
		functions = append(functions, shortFn(k))
		c := eng.VerifyFunction(fn, ct)
		ctxs = append(ctxs, c)
		allObls = append(allObls, c.obls...)
		var used []string
		for u := range c.used {
			used = append(used, u)
		}
		sort.Strings(used)
		for _, u := range used {
			uc := eng.contracts[u]
			if uc == nil {
				uc = eng.ifaceContracts[u]
			}
			if uc == nil {
				uc = eng.functypes[u]
			}
			if uc != nil && uc.IsTrustedFile {
				trustedUsed[u] = true
				continue
			}
			if _, isFunc := eng.contracts[u]; isFunc && !inCone[u] {
				inCone[u] = true
				queue = append(queue, u)
			}
		}
		for u := range c.unknown {
			unknownCalls[shortFn(k)+" -> "+u] = true
		}
		for t := range c.trusted {
			if _, isContract := eng.contracts[t]; !isContract && eng.ifaceContracts[t] == nil && eng.functypes[t] == nil {
				modelNotes[t] = true
			}
		}
	}
	// interface implementations (behavioural subtyping) for interfaces tagged with the property
	implObls, implFns, implErrs := eng.implObligations(*prop)
	allObls = append(allObls, implObls...)
	functions = append(functions, implFns...)
	// lemmas tagged with the property
	lemObls, lemErrs := eng.lemmaObligations(*prop)
	allObls = append(allObls, lemObls...)

	if data, err := os.ReadFile(filepath.Join(*verif, "solver_hints.json")); err == nil {
		json.Unmarshal(data, &solverHints)
	}
	timeout := 10
	if *tier == "thorough" {
		timeout = 60
	}
	knownFail := map[string]bool{}
	for i := range known {
		if known[i].Property == *prop && known[i].Status == "known" {
			knownFail[known[i].Obligation] = true
		}
	}
	// Obligations of clauses tagged for other properties only (a callee pulled into this cone carries the
	// clauses of every property it serves) are not counted by this check: the quick tier does not spend
	// solver time on them (their own property's check discharges them); the thorough tier still runs them
	// and lists the failing ones under other_properties_failing.
	toDischarge := allObls
	if *tier != "thorough" {
		toDischarge = nil
		for _, o := range allObls {
			if o.Support || len(o.Tags) == 0 || hasTag(o.Tags, *prop) {
				toDischarge = append(toDischarge, o)
			} else {
				o.Status = "not-run(other property)"
			}
		}
	}
	discharge(eng, toDischarge, dischargeOpts{outDir: outDir, timeout: timeout, jobs: 16, allSolvers: *tier == "thorough", seed: seed, knownFail: knownFail})

	crossInfo := map[string]interface{}{}
	if *tier == "thorough" {
		agreed, undecided, dis := crossCheck(allObls, 10)
		crossInfo = map[string]interface{}{"second_solver_agrees": agreed, "second_solver_undecided": undecided, "disagreements": len(dis),
			"note": "thorough tier: every obligation proved by one solver was also put to the other installed solvers (10 s each)"}
		for _, o := range dis {
			o.Status = "solver-disagreement"
		}
	}
	// engine errors
	for _, c := range ctxs {
		for _, e := range c.errs {
			engineFail(shortFn(c.fn.RelString(nil)), e)
		}
	}
	for _, e := range append(implErrs, lemErrs...) {
		engineFail("spec", e)
	}

	var reports []oblReport
	var samples []oblReport
	discharged := 0
	counted := 0
	solverSecs := 0.0
	bySolver := map[string]int{}
	var otherFailing []string
	var knownHit []string
	replaysDone := 0
	for _, o := range allObls {
		solverSecs += o.Secs
		rep := oblReport{Function: shortFn(o.Fn), Obligation: o.Name, Kind: o.Kind, Clause: trunc(o.Text, 200), Status: o.Status, Solver: o.Solver, Seconds: o.Secs, SMTFile: o.SMTFile}
		reports = append(reports, rep)
		mine := o.Support || len(o.Tags) == 0 || hasTag(o.Tags, *prop)
		if !mine {
			if !o.ok() && o.Status != "not-run(other property)" {
				otherFailing = append(otherFailing, shortFn(o.Fn)+"/"+o.Name+" (tags "+strings.Join(o.Tags, ",")+")")
			}
			continue
		}
		counted++
		if o.ok() {
			discharged++
			bySolver[strings.Fields(o.Solver)[0]]++
			if len(samples) < 6 && o.Kind == "ensures" {
				samples = append(samples, rep)
			}
			continue
		}
		full := shortFn(o.Fn) + "/" + o.Name
		if o.ExpectSat && os.Getenv("GOVC_DUMP_COVER") != "" {
			fmt.Printf("COVER %s | %s\n", full, o.Src)
		}
		if o.ExpectSat && deadPaths[full] != "" {
			deadNoted = append(deadNoted, full+": "+deadPaths[full])
			discharged++
			continue
		}
		if o.ExpectSat && o.Src != "" {
			fnp := full
			if i := strings.Index(fnp, "/cover/"); i >= 0 {
				fnp = fnp[:i]
			}
			if r := deadSrc[fnp+"|"+o.Src]; r != "" {
				deadNoted = append(deadNoted, full+" ("+o.Src+"): "+r)
				discharged++
				continue
			}
		}
		if kf := isKnown(full); kf != nil {
			fmt.Printf("KNOWN-FINDING: property=%s %s %s\n", *prop, full, kf.What)
			knownHit = append(knownHit, full)
			continue
		}
		body := map[string]interface{}{"obligation": full, "clause": o.Text, "kind": o.Kind, "solver": o.Solver, "answer": o.Status,
			"seconds": o.Secs, "smt_file": o.SMTFile, "solver_output": trunc(o.Model, 4000)}
		noInput := true
		haveModel := o.Status == "sat" && !o.ExpectSat
		// replay budget: postconditions first, at most a few per run (each replay costs several
		// solver queries and a go test run)
		replayThis := !*noReplay && o.Kind == "ensures" && replaysDone < 4 && time.Since(t0) < 8*time.Minute
		if replayThis {
			replaysDone++
		}
		if !o.ExpectSat && replayThis {
			// a candidate counterexample: the solver's own model, or one found with the quantified
			// assumptions dropped; either way it only counts if it replays on the real code
			o.relaxed = true
			model, ok := candidateModel(eng, o, outDir, 10)
			if ok {
				haveModel = true
				body["candidate_model"] = trunc(model, 6000)
			} else {
				o.relaxed = false
			}
		}
		if haveModel {
			if replayThis {
				res := replayObligation(eng, o, "", *repo, outDir)
				o.relaxed = false
				body["replay"] = res
				if res != nil && res.Reproduced {
					noInput = false
					body["status"] = "reproduced"
				}
			}
		}
		if _, ok := body["status"]; !ok {
			if o.Status == "sat" {
				body["status"] = "no-failing-input-found"
			} else if o.ExpectSat {
				body["status"] = "vacuous"
			} else {
				body["status"] = "undecided"
			}
		}
		p := writeReplay(full, body)
		violate(p, noInput)
		if *verbose {
			fmt.Printf("  failing: %s [%s by %s] %s\n", full, o.Status, o.Solver, trunc(o.Text, 100))
		}
	}
	if counted == 0 {
		engineFail("vacuity", "the cone generated zero obligations")
	}
	var trusted []string
	for u := range trustedUsed {
		trusted = append(trusted, "assumed contract: "+u)
	}
	for n := range modelNotes {
		trusted = append(trusted, n)
	}
	sort.Strings(trusted)
	sort.Strings(assumedContracts)
	for _, a := range assumedContracts {
		trusted = append(trusted, "assumed /repo contract: "+a)
	}
	var unk []string
	for u := range unknownCalls {
		unk = append(unk, "unknown call (havoc): "+u)
	}
	sort.Strings(unk)
	trusted = append(trusted, unk...)
	for _, at := range eng.axiomTerms {
		if !at.ax.Lemma {
			trusted = append(trusted, "axiom: "+at.ax.Name+" ("+filepath.Base(at.ax.File)+")")
		}
	}
	for _, im := range eng.immutableNote {
		trusted = append(trusted, "field assumed immutable after construction (survives havoc): "+im)
	}
	trusted = append(trusted, baseAssumptions...)
	{
		var keep []string
		for _, f := range functions {
			if strings.HasPrefix(f, "ASSUMED ") {
				trusted = append(trusted, f)
			} else {
				keep = append(keep, f)
			}
		}
		functions = keep
		inl := map[string]bool{}
		for _, c := range ctxs {
			for k := range c.inlined {
				inl[k] = true
			}
		}
		var il []string
		for k := range inl {
			il = append(il, k)
		}
		sort.Strings(il)
		if len(il) > 0 {
			trusted = append(trusted, "inlined (body executed at the call site instead of a contract): "+strings.Join(il, ", "))
		}
		ro := map[string]bool{}
		for _, c := range ctxs {
			for k := range c.readonlyExt {
				ro[k] = true
			}
		}
		var rl []string
		for k := range ro {
			rl = append(rl, k)
		}
		sort.Strings(rl)
		if len(rl) > 0 {
			trusted = append(trusted, "library functions assumed read-only (no program memory changes, fresh unconstrained results): "+strings.Join(rl, ", "))
		}
	}
	sort.Strings(functions)
	if os.Getenv("GOVC_WRITE_HINTS") != "" {
		// merge: obligations decided by a solver other than the first one
		for _, o := range allObls {
			k := shortFn(o.Fn) + "/" + o.Name
			base := strings.TrimSuffix(o.Solver, " (retry)")
			if !o.ExpectSat && o.Status == "unsat" && (base == "z3" || base == "cvc5") {
				solverHints[k] = base
			} else if _, had := solverHints[k]; had && o.Status == "unsat" && base == "z3-new" {
				delete(solverHints, k)
			}
		}
		// slow proofs by the first solver: is one of the others much faster?
		for _, o := range allObls {
			if o.ExpectSat || o.Status != "unsat" || o.Secs < 1.0 || o.SMTFile == "" || strings.TrimSuffix(o.Solver, " (retry)") != solvers[0].name {
				continue
			}
			for _, sv := range solvers[1:] {
				st, _, secs := runSolver(sv, o.SMTFile, 5)
				if st == "unsat" && secs*3 < o.Secs {
					solverHints[shortFn(o.Fn)+"/"+o.Name] = sv.name
					break
				}
			}
		}
		data, _ := json.MarshalIndent(solverHints, "", " ")
		os.WriteFile(filepath.Join(*verif, "solver_hints.json"), data, 0o644)
	}
	// the slowest obligations of this run (how far the proofs are from the solver budget)
	var slow []map[string]interface{}
	{
		sorted := append([]*Obligation(nil), allObls...)
		sort.Slice(sorted, func(i, j int) bool { return sorted[i].Secs > sorted[j].Secs })
		for _, o := range sorted {
			if len(slow) >= 8 {
				break
			}
			if o.ExpectSat {
				continue // covers run with a 1 s (quick) / 3 s (thorough) budget and pass when not refuted
			}
			slow = append(slow, map[string]interface{}{"obligation": shortFn(o.Fn) + "/" + o.Name, "seconds": o.Secs, "solver": o.Solver, "answer": o.Status})
		}
	}
	extra := map[string]interface{}{
		"slowest_obligations": slow, "solver_timeout_seconds": timeout, "cross_check": crossInfo,
		"functions_under_contract": functions, "obligations_by_backend": bySolver, "solver_seconds": solverSecs,
		"load_seconds": loadSecs, "other_properties_failing": otherFailing, "known_findings_hit": knownHit,
		"all_obligations": len(allObls), "audited_dead_paths": deadNoted, "engine": "govc (go/ssa naive form -> SMT-LIB; z3-new 5.1, z3 4.8.12, cvc5 1.0)",
	}
	bounded := runBoundedStandins(*prop, *tier, *repo, *verif, seed, violate, writeReplay)
	if bounded != nil {
		extra["bounded"] = bounded
	}
	writeEvidence(evidencePath, *prop, *tier, seed, levelOf(*prop), reports, samples, trusted, extra, functions, time.Since(t0).Seconds(), violations,
		"", map[string]int{"obligations": counted, "discharged": discharged})
	if *verbose || violations > 0 {
		fmt.Printf("property %s: %d/%d obligations discharged, %d functions, %d violations, %.1fs\n", *prop, discharged, counted, len(functions), violations, time.Since(t0).Seconds())
	}
	if violations > 0 {
		return 1
	}
	return 0
}

var baseAssumptions = []string{
	"GOARCH=amd64: int/uint are 64 bit",
	"integers are mathematical Int with explicit wrap-around at every arithmetic result and conversion",
	"methods are not invoked on nil receivers",
	"heap well-typedness: values read from fields are in range for their type and refer to allocated objects",
	"floating point values are opaque bit patterns",
	"monitor rule (Owicki-Gries) for lock-protected invariants where used",
}

func levelOf(prop string) string {
	switch prop {
	case "C10", "C11", "C12", "C20", "C03":
		return "other"
	}
	return "proof"
}

func writeEvidence(path, prop, tier string, seed int, level string, reports []oblReport, samples []oblReport, trusted []string, extra map[string]interface{}, functions []string, wall float64, violations int, note string, counts map[string]int) {
	cov := map[string]interface{}{}
	for k, v := range extra {
		cov[k] = v
	}
	if counts != nil {
		cov["obligations"] = counts["obligations"]
		cov["discharged"] = counts["discharged"]
	} else {
		cov["obligations"] = 0
		cov["discharged"] = 0
	}
	cov["checker_cmd"] = fmt.Sprintf("/verif/check %s --tier %s", prop, tier)
	if trusted == nil {
		trusted = []string{}
	}
	cov["trusted_base"] = trusted
	var ss []interface{}
	for _, s := range samples {
		ss = append(ss, s)
	}
	if len(ss) == 0 {
		for i, r := range reports {
			if i >= 3 {
				break
			}
			ss = append(ss, r)
		}
	}
	if ss == nil {
		ss = []interface{}{"no obligations generated"}
	}
	cov["samples"] = ss
	cov["explanation"] = "Obligations are generated from the SSA of the functions under contract in /repo's working tree (contracts in zz_contracts_verif.go files, build tag verif) and discharged by SMT solvers; 'discharged' counts obligations answered unsat (covers: not refuted). " + note
	if level == "other" {
		cov["evaluations"] = cov["obligations"]
	}
	ev := map[string]interface{}{
		"property_id": prop, "tier": tier, "seed": seed, "level": level, "coverage": cov,
		"assumptions": trusted, "wall_s": wall, "violations": violations,
	}
	data, _ := json.MarshalIndent(ev, "", " ")
	os.WriteFile(path, data, 0o644)
	// full per-obligation table next to the SMT files (not part of the committed evidence)
	if reports != nil {
		d2, _ := json.MarshalIndent(reports, "", " ")
		os.WriteFile(filepath.Join(filepath.Dir(filepath.Dir(path)), "out", prop, "obligations.json"), d2, 0o644)
	}
}

// lemmaObligations: `lemma` declarations tagged with the property become stand-alone obligations.
func (e *Engine) lemmaObligations(prop string) ([]*Obligation, []string) {
	var out []*Obligation
	var errs []string
	for _, at := range e.axiomTerms {
		if !at.ax.Lemma || !(hasTag(at.ax.Tags, prop)) {
			continue
		}
		c := e.newCtx(nil, nil)
		c.facts = at.facts
		o := &Obligation{NFacts: len(at.facts), Name: "lemma/" + at.ax.Name, Fn: "lemma", Kind: "lemma", Tags: at.ax.Tags, Text: at.ax.E.String(), ctx: c, PC: True, Goal: at.t, Support: false, noAxiom: at.ax.Name}
		out = append(out, o)
	}
	return out, errs
}

// implObligations verifies every /repo implementer of an interface contract tagged with prop.
func (e *Engine) implObligations(prop string) ([]*Obligation, []string, []string) {
	var out []*Obligation
	var fns, errs []string
	var keys []string
	for k := range e.ifaceContracts {
		keys = append(keys, k)
	}
	sort.Strings(keys)
	for _, k := range keys {
		ict := e.ifaceContracts[k]
		if ict.IsTrustedFile || ict.Trusted || !hasTag(ict.Tags, prop) {
			continue
		}
		impls := e.implementers(ict)
		for _, fn := range impls {
			// a function-level contract may refine the interface contract with loop invariants
			ct := *ict
			ct.Kind = "func"
			ct.Loops = map[int]*LoopSpec{}
			ct.Asserts = map[string][]*Clause{}
			if own := e.ownContracts[fn.RelString(nil)]; own != nil {
				ct.Aliases = map[string]string{}
				if own.Recv != nil && ict.Recv != nil {
					ct.Aliases[own.Recv.Name] = ict.Recv.Name
				}
				for i, p := range own.Params {
					if i < len(ict.Params) {
						ct.Aliases[p.Name] = ict.Params[i].Name
					}
				}
				for i, p := range own.Results {
					if i < len(ict.Results) {
						ct.Aliases[p.Name] = ict.Results[i].Name
					}
				}
				ct.Loops = own.Loops
				ct.Asserts = own.Asserts
				ct.Requires = append(append([]*Clause(nil), ict.Requires...), own.Requires...)
				for _, r := range own.Requires {
					fns = append(fns, "ASSUMED implementer precondition (not checked at interface call sites): "+shortFn(fn.RelString(nil))+": "+r.Text)
				}
				ct.Ensures = append(append([]*Clause(nil), ict.Ensures...), own.Ensures...)
				ct.Modifies = append(append([]*Expr(nil), ict.Modifies...), own.Modifies...)
				for k, v := range own.Opts {
					if ct.Opts == nil {
						ct.Opts = map[string]string{}
					}
					ct.Opts[k] = v
				}
			}
			c := e.VerifyFunctionAs(fn, &ct, e.contractPkg[ict])
			for _, o := range c.obls {
				o.Name = "impl:" + lastName(k) + "/" + o.Name
			}
			out = append(out, c.obls...)
			fns = append(fns, shortFn(fn.RelString(nil))+" (implements "+shortFn(k)+")")
			for _, er := range c.errs {
				errs = append(errs, shortFn(fn.RelString(nil))+": "+er)
			}
		}
	}
	return out, fns, errs
}

func (e *Engine) implementers(ict *Contract) []*ssa.Function {
	// key: "<pkgpath>.<Iface>.<Method>"
	i := strings.LastIndex(ict.Key, ".")
	ifaceName, method := ict.Key[:i], ict.Key[i+1:]
	j := strings.LastIndex(ifaceName, ".")
	pkg := e.pkgByPath[ifaceName[:j]]
	if pkg == nil {
		return nil
	}
	obj := pkg.Scope().Lookup(ifaceName[j+1:])
	if obj == nil {
		return nil
	}
	it, ok := obj.Type().Underlying().(*typesInterface)
	if !ok {
		return nil
	}
	return e.findImplementers(it, method)
}
