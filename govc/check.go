package main

func cmdCheck(args []string) int { return 2 }
