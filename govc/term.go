package main

// Hash-consed SMT terms with light simplification and an SMT-LIB2 printer.

import (
	"fmt"
	"math/big"
	"sort"
	"strings"
)

type Sort struct {
	Name string // "Int", "Bool", or "(Array X Y)"
}

var (
	SInt  = &Sort{"Int"}
	SBool = &Sort{"Bool"}
	sorts = map[string]*Sort{"Int": SInt, "Bool": SBool}
)

func mkSort(name string) *Sort {
	if s, ok := sorts[name]; ok {
		return s
	}
	s := &Sort{name}
	sorts[name] = s
	return s
}

func SArr(from, to *Sort) *Sort { return mkSort("(Array " + from.Name + " " + to.Name + ")") }

func (s *Sort) IsArr() bool { return strings.HasPrefix(s.Name, "(Array ") }

// Elem returns the range sort of an array sort.
func (s *Sort) Elem() *Sort {
	if !s.IsArr() {
		panic("Elem of non-array sort " + s.Name)
	}
	inner := s.Name[len("(Array ") : len(s.Name)-1]
	// split at top-level space
	depth := 0
	for i, c := range inner {
		switch c {
		case '(':
			depth++
		case ')':
			depth--
		case ' ':
			if depth == 0 {
				return mkSort(inner[i+1:])
			}
		}
	}
	panic("bad array sort " + s.Name)
}

func (s *Sort) Index() *Sort {
	inner := s.Name[len("(Array ") : len(s.Name)-1]
	depth := 0
	for i, c := range inner {
		switch c {
		case '(':
			depth++
		case ')':
			depth--
		case ' ':
			if depth == 0 {
				return mkSort(inner[:i])
			}
		}
	}
	panic("bad array sort " + s.Name)
}

type Term struct {
	Op   string // "const" (numeral), "var" (declared constant), "bvar" (bound), or an SMT operator / function name
	Name string // for var/bvar/const/app
	Args []*Term
	S    *Sort
	id   int
	// quantifiers: Op = "forall"/"exists", Bound vars in Bvs, body Args[0], triggers in Pats
	Bvs  []*Term
	Pats [][]*Term
}

var (
	internTab = map[string]*Term{}
	nextID    = 1
)

func intern(t *Term) *Term {
	var sb strings.Builder
	sb.WriteString(t.Op)
	sb.WriteByte('|')
	sb.WriteString(t.Name)
	sb.WriteByte('|')
	sb.WriteString(t.S.Name)
	for _, a := range t.Args {
		fmt.Fprintf(&sb, ",%d", a.id)
	}
	if len(t.Bvs) > 0 {
		sb.WriteString("|bv")
		for _, a := range t.Bvs {
			fmt.Fprintf(&sb, ",%d", a.id)
		}
		for _, p := range t.Pats {
			sb.WriteString("|p")
			for _, a := range p {
				fmt.Fprintf(&sb, ",%d", a.id)
			}
		}
	}
	k := sb.String()
	if x, ok := internTab[k]; ok {
		return x
	}
	t.id = nextID
	nextID++
	internTab[k] = t
	return t
}

// ---- constructors

func Num(n int64) *Term { return NumBig(big.NewInt(n)) }

func NumBig(n *big.Int) *Term {
	return intern(&Term{Op: "const", Name: n.String(), S: SInt})
}

func (t *Term) IsNum() bool { return t.Op == "const" && t.S == SInt }

func (t *Term) NumVal() *big.Int {
	n, _ := new(big.Int).SetString(t.Name, 10)
	return n
}

var (
	True  = intern(&Term{Op: "const", Name: "true", S: SBool})
	False = intern(&Term{Op: "const", Name: "false", S: SBool})
)

func BoolT(b bool) *Term {
	if b {
		return True
	}
	return False
}

// declared symbols (constants and functions) — global registry for declaration printing
type decl struct {
	name string
	args []*Sort
	ret  *Sort
}

var (
	decls     = map[string]*decl{}
	declOrder []string
	freshCtr  = map[string]int{}
)

func declare(name string, args []*Sort, ret *Sort) {
	if d, ok := decls[name]; ok {
		if d.ret != ret || len(d.args) != len(args) {
			panic(fmt.Sprintf("symbol %s redeclared with different sort (%s vs %s)", name, d.ret.Name, ret.Name))
		}
		return
	}
	decls[name] = &decl{name, args, ret}
	declOrder = append(declOrder, name)
}

func smtName(s string) string {
	ok := true
	for _, c := range s {
		if !(c >= 'a' && c <= 'z' || c >= 'A' && c <= 'Z' || c >= '0' && c <= '9' || c == '_' || c == '.' || c == '!' || c == '$' || c == '#' || c == '@' || c == '/' || c == '-') {
			ok = false
		}
	}
	if ok && s != "" && !(s[0] >= '0' && s[0] <= '9') {
		return s
	}
	return "|" + strings.ReplaceAll(s, "|", "_") + "|"
}

// Var returns the declared constant with that exact name.
func Var(name string, s *Sort) *Term {
	declare(name, nil, s)
	return intern(&Term{Op: "var", Name: name, S: s})
}

// Fresh returns a new declared constant with a unique name derived from hint.
func Fresh(hint string, s *Sort) *Term {
	hint = strings.Map(func(r rune) rune {
		if r >= 'a' && r <= 'z' || r >= 'A' && r <= 'Z' || r >= '0' && r <= '9' || r == '_' || r == '.' {
			return r
		}
		return '_'
	}, hint)
	freshCtr[hint]++
	return Var(fmt.Sprintf("%s!%d", hint, freshCtr[hint]), s)
}

var bvarCtr int

func BVar(hint string, s *Sort) *Term {
	bvarCtr++
	return intern(&Term{Op: "bvar", Name: fmt.Sprintf("%s?%d", hint, bvarCtr), S: s})
}

// App applies an uninterpreted (declared) function.
func App(name string, ret *Sort, args ...*Term) *Term {
	as := make([]*Sort, len(args))
	for i, a := range args {
		as[i] = a.S
	}
	declare(name, as, ret)
	return intern(&Term{Op: "app", Name: name, Args: args, S: ret})
}

func op(o string, s *Sort, args ...*Term) *Term {
	return intern(&Term{Op: o, Args: args, S: s})
}

func Not(a *Term) *Term {
	if a == True {
		return False
	}
	if a == False {
		return True
	}
	if a.Op == "not" {
		return a.Args[0]
	}
	return op("not", SBool, a)
}

func And(as ...*Term) *Term {
	var out []*Term
	seen := map[int]bool{}
	for _, a := range as {
		if a == True {
			continue
		}
		if a == False {
			return False
		}
		if a.Op == "and" {
			for _, b := range a.Args {
				if !seen[b.id] {
					seen[b.id] = true
					out = append(out, b)
				}
			}
			continue
		}
		if !seen[a.id] {
			seen[a.id] = true
			out = append(out, a)
		}
	}
	for _, a := range out {
		if seen[Not(a).id] && a.Op != "not" {
			return False
		}
	}
	if len(out) == 0 {
		return True
	}
	if len(out) == 1 {
		return out[0]
	}
	return op("and", SBool, out...)
}

func Or(as ...*Term) *Term {
	var out []*Term
	seen := map[int]bool{}
	for _, a := range as {
		if a == False {
			continue
		}
		if a == True {
			return True
		}
		if a.Op == "or" {
			for _, b := range a.Args {
				if !seen[b.id] {
					seen[b.id] = true
					out = append(out, b)
				}
			}
			continue
		}
		if !seen[a.id] {
			seen[a.id] = true
			out = append(out, a)
		}
	}
	for _, a := range out {
		if a.Op != "not" && seen[Not(a).id] {
			return True
		}
	}
	if len(out) == 0 {
		return False
	}
	if len(out) == 1 {
		return out[0]
	}
	return op("or", SBool, out...)
}

func Implies(a, b *Term) *Term {
	if a == True {
		return b
	}
	if a == False || b == True {
		return True
	}
	if b == False {
		return Not(a)
	}
	return op("=>", SBool, a, b)
}

func Iff(a, b *Term) *Term { return Eq(a, b) }

func Eq(a, b *Term) *Term {
	if a.S != b.S {
		panic(fmt.Sprintf("Eq sort mismatch: %s : %s  vs  %s : %s", a, a.S.Name, b, b.S.Name))
	}
	if a == b {
		return True
	}
	if a.IsNum() && b.IsNum() {
		return BoolT(a.NumVal().Cmp(b.NumVal()) == 0)
	}
	if a.S == SBool {
		if a == True {
			return b
		}
		if b == True {
			return a
		}
		if a == False {
			return Not(b)
		}
		if b == False {
			return Not(a)
		}
	}
	if a.id > b.id {
		a, b = b, a
	}
	return op("=", SBool, a, b)
}

func Neq(a, b *Term) *Term { return Not(Eq(a, b)) }

func Ite(c, a, b *Term) *Term {
	if c == True {
		return a
	}
	if c == False {
		return b
	}
	if a == b {
		return a
	}
	if a.S != b.S {
		panic(fmt.Sprintf("Ite sort mismatch: %s vs %s", a.S.Name, b.S.Name))
	}
	if a.S == SBool {
		if a == True && b == False {
			return c
		}
		if a == False && b == True {
			return Not(c)
		}
	}
	return op("ite", a.S, c, a, b)
}

func cmp(o string, a, b *Term, f func(int) bool) *Term {
	if a.S != SInt || b.S != SInt {
		panic(fmt.Sprintf("comparison %s on non-Int: %s:%s %s:%s", o, a, a.S.Name, b, b.S.Name))
	}
	if a.IsNum() && b.IsNum() {
		return BoolT(f(a.NumVal().Cmp(b.NumVal())))
	}
	if a == b {
		return BoolT(f(0))
	}
	return op(o, SBool, a, b)
}

func Lt(a, b *Term) *Term { return cmp("<", a, b, func(c int) bool { return c < 0 }) }
func Le(a, b *Term) *Term { return cmp("<=", a, b, func(c int) bool { return c <= 0 }) }
func Gt(a, b *Term) *Term { return Lt(b, a) }
func Ge(a, b *Term) *Term { return Le(b, a) }

// Linear normal form: sums are kept as sorted monomials with integer coefficients so that
// syntactically different spellings of the same linear expression become the same term.
type linForm struct {
	coef map[*Term]*big.Int
	k    *big.Int
}

func newLin() *linForm { return &linForm{coef: map[*Term]*big.Int{}, k: new(big.Int)} }

func (l *linForm) addScaled(t *Term, c *big.Int) {
	if t.S != SInt {
		panic("arithmetic on non-Int term " + t.String())
	}
	switch {
	case t.IsNum():
		l.k.Add(l.k, new(big.Int).Mul(c, t.NumVal()))
	case t.Op == "+":
		for _, a := range t.Args {
			l.addScaled(a, c)
		}
	case t.Op == "*" && len(t.Args) == 2 && t.Args[0].IsNum():
		l.addScaled(t.Args[1], new(big.Int).Mul(c, t.Args[0].NumVal()))
	case t.Op == "*" && len(t.Args) == 2 && t.Args[1].IsNum():
		l.addScaled(t.Args[0], new(big.Int).Mul(c, t.Args[1].NumVal()))
	case t.Op == "-" && len(t.Args) == 1:
		l.addScaled(t.Args[0], new(big.Int).Neg(c))
	case t.Op == "-" && len(t.Args) == 2:
		l.addScaled(t.Args[0], c)
		l.addScaled(t.Args[1], new(big.Int).Neg(c))
	default:
		if old, ok := l.coef[t]; ok {
			old.Add(old, c)
		} else {
			l.coef[t] = new(big.Int).Set(c)
		}
	}
}

func (l *linForm) term() *Term {
	var atoms []*Term
	for t, c := range l.coef {
		if c.Sign() != 0 {
			atoms = append(atoms, t)
		}
	}
	sort.Slice(atoms, func(i, j int) bool { return atoms[i].id < atoms[j].id })
	var out []*Term
	one := big.NewInt(1)
	for _, t := range atoms {
		c := l.coef[t]
		if c.Cmp(one) == 0 {
			out = append(out, t)
		} else {
			out = append(out, op("*", SInt, NumBig(c), t))
		}
	}
	if l.k.Sign() != 0 || len(out) == 0 {
		out = append(out, NumBig(l.k))
	}
	if len(out) == 1 {
		return out[0]
	}
	return op("+", SInt, out...)
}

func Add(as ...*Term) *Term {
	l := newLin()
	one := big.NewInt(1)
	for _, a := range as {
		l.addScaled(a, one)
	}
	return l.term()
}

func Neg(a *Term) *Term {
	l := newLin()
	l.addScaled(a, big.NewInt(-1))
	return l.term()
}

func Sub(a, b *Term) *Term {
	l := newLin()
	l.addScaled(a, big.NewInt(1))
	l.addScaled(b, big.NewInt(-1))
	return l.term()
}

func Mul(a, b *Term) *Term {
	if a.IsNum() {
		l := newLin()
		l.addScaled(b, a.NumVal())
		return l.term()
	}
	if b.IsNum() {
		l := newLin()
		l.addScaled(a, b.NumVal())
		return l.term()
	}
	return op("*", SInt, a, b)
}

// linCoef returns the coefficient of atom x in t and t minus that monomial.
func linSplit(t, x *Term) (*big.Int, *Term) {
	l := newLin()
	l.addScaled(t, big.NewInt(1))
	c, ok := l.coef[x]
	if !ok {
		return new(big.Int), t
	}
	delete(l.coef, x)
	return c, l.term()
}

// Div and Mod are SMT-LIB (Euclidean) div/mod.
func Div(a, b *Term) *Term {
	if a.IsNum() && b.IsNum() && b.NumVal().Sign() != 0 {
		q, _ := new(big.Int).DivMod(a.NumVal(), b.NumVal(), new(big.Int))
		return NumBig(q)
	}
	return op("div", SInt, a, b)
}

func Mod(a, b *Term) *Term {
	if a.IsNum() && b.IsNum() && b.NumVal().Sign() != 0 {
		_, m := new(big.Int).DivMod(a.NumVal(), b.NumVal(), new(big.Int))
		return NumBig(m)
	}
	return op("mod", SInt, a, b)
}

func Select(a, i *Term) *Term {
	if !a.S.IsArr() {
		panic("Select on non-array " + a.String() + " : " + a.S.Name)
	}
	// select(store(a, i, v), i) = v ; skip over stores at provably different constant indices
	for a.Op == "store" {
		if a.Args[1] == i {
			return a.Args[2]
		}
		if a.Args[1].IsNum() && i.IsNum() {
			a = a.Args[0]
			continue
		}
		break
	}
	return op("select", a.S.Elem(), a, i)
}

func Store(a, i, v *Term) *Term {
	if !a.S.IsArr() {
		panic("Store on non-array " + a.String())
	}
	if a.S.Elem() != v.S {
		panic(fmt.Sprintf("Store sort mismatch: array %s value %s:%s", a.S.Name, v, v.S.Name))
	}
	return op("store", a.S, a, i, v)
}

func Forall(bvs []*Term, pats [][]*Term, body *Term) *Term {
	if body == True {
		return True
	}
	return intern(&Term{Op: "forall", Args: []*Term{body}, S: SBool, Bvs: bvs, Pats: pats})
}

func Exists(bvs []*Term, pats [][]*Term, body *Term) *Term {
	if body == False {
		return False
	}
	return intern(&Term{Op: "exists", Args: []*Term{body}, S: SBool, Bvs: bvs, Pats: pats})
}

// Subst replaces terms (by identity) throughout t.
func Subst(t *Term, m map[*Term]*Term) *Term {
	cache := map[*Term]*Term{}
	var rec func(t *Term) *Term
	rec = func(t *Term) *Term {
		if r, ok := m[t]; ok {
			return r
		}
		if len(t.Args) == 0 {
			return t
		}
		if r, ok := cache[t]; ok {
			return r
		}
		args := make([]*Term, len(t.Args))
		changed := false
		for i, a := range t.Args {
			args[i] = rec(a)
			if args[i] != a {
				changed = true
			}
		}
		var r *Term
		if !changed && len(t.Pats) == 0 {
			r = t
		} else {
			r = rebuild(t, args, rec)
		}
		cache[t] = r
		return r
	}
	return rec(t)
}

func rebuild(t *Term, args []*Term, rec func(*Term) *Term) *Term {
	switch t.Op {
	case "and":
		return And(args...)
	case "or":
		return Or(args...)
	case "not":
		return Not(args[0])
	case "=>":
		return Implies(args[0], args[1])
	case "=":
		return Eq(args[0], args[1])
	case "ite":
		return Ite(args[0], args[1], args[2])
	case "+":
		return Add(args...)
	case "-":
		if len(args) == 1 {
			return Neg(args[0])
		}
		return Sub(args[0], args[1])
	case "*":
		return Mul(args[0], args[1])
	case "div":
		return Div(args[0], args[1])
	case "mod":
		return Mod(args[0], args[1])
	case "<":
		return Lt(args[0], args[1])
	case "<=":
		return Le(args[0], args[1])
	case "select":
		return Select(args[0], args[1])
	case "store":
		return Store(args[0], args[1], args[2])
	case "app":
		return intern(&Term{Op: "app", Name: t.Name, Args: args, S: t.S})
	case "forall", "exists":
		pats := make([][]*Term, len(t.Pats))
		for i, p := range t.Pats {
			for _, x := range p {
				pats[i] = append(pats[i], rec(x))
			}
		}
		if t.Op == "forall" {
			return Forall(t.Bvs, pats, args[0])
		}
		return Exists(t.Bvs, pats, args[0])
	}
	return intern(&Term{Op: t.Op, Name: t.Name, Args: args, S: t.S})
}

// ---- printing

func (t *Term) String() string {
	var sb strings.Builder
	t.write(&sb)
	return sb.String()
}

func (t *Term) write(sb *strings.Builder) {
	switch t.Op {
	case "const":
		if t.S == SInt && strings.HasPrefix(t.Name, "-") {
			sb.WriteString("(- " + t.Name[1:] + ")")
		} else {
			sb.WriteString(t.Name)
		}
	case "var", "bvar":
		sb.WriteString(smtName(t.Name))
	case "app":
		if len(t.Args) == 0 {
			sb.WriteString(smtName(t.Name))
			return
		}
		sb.WriteString("(" + smtName(t.Name))
		for _, a := range t.Args {
			sb.WriteByte(' ')
			a.write(sb)
		}
		sb.WriteByte(')')
	case "forall", "exists":
		sb.WriteString("(" + t.Op + " (")
		for _, b := range t.Bvs {
			sb.WriteString("(" + smtName(b.Name) + " " + b.S.Name + ")")
		}
		sb.WriteString(") ")
		if len(t.Pats) > 0 {
			sb.WriteString("(! ")
		}
		t.Args[0].write(sb)
		if len(t.Pats) > 0 {
			for _, p := range t.Pats {
				sb.WriteString(" :pattern (")
				for i, x := range p {
					if i > 0 {
						sb.WriteByte(' ')
					}
					x.write(sb)
				}
				sb.WriteString(")")
			}
			sb.WriteString(")")
		}
		sb.WriteString(")")
	default:
		sb.WriteString("(" + t.Op)
		for _, a := range t.Args {
			sb.WriteByte(' ')
			a.write(sb)
		}
		sb.WriteByte(')')
	}
}

// collectSyms returns the declared symbol names used in the terms.
func collectSyms(ts []*Term, into map[string]bool) {
	seen := map[*Term]bool{}
	var rec func(t *Term)
	rec = func(t *Term) {
		if seen[t] {
			return
		}
		seen[t] = true
		if t.Op == "var" || t.Op == "app" {
			into[t.Name] = true
		}
		for _, a := range t.Args {
			rec(a)
		}
		for _, p := range t.Pats {
			for _, x := range p {
				rec(x)
			}
		}
	}
	for _, t := range ts {
		rec(t)
	}
}

func declText(names map[string]bool) string {
	var ns []string
	for n := range names {
		ns = append(ns, n)
	}
	sort.Strings(ns)
	var sb strings.Builder
	for _, n := range ns {
		d := decls[n]
		if d == nil {
			continue
		}
		sb.WriteString("(declare-fun " + smtName(n) + " (")
		for i, a := range d.args {
			if i > 0 {
				sb.WriteByte(' ')
			}
			sb.WriteString(a.Name)
		}
		sb.WriteString(") " + d.ret.Name + ")\n")
	}
	return sb.String()
}

// ---- DAG-aware printing: closed subterms that occur more than once are hoisted into define-funs.

type dagPrinter struct {
	count  map[*Term]int
	closed map[*Term]bool
	named  map[*Term]string
	defs   []string
}

func (d *dagPrinter) isClosed(t *Term) bool {
	if v, ok := d.closed[t]; ok {
		return v
	}
	c := t.Op != "bvar"
	if c {
		for _, a := range t.Args {
			if !d.isClosed(a) {
				c = false
			}
		}
		for _, p := range t.Pats {
			for _, x := range p {
				if !d.isClosed(x) {
					c = false
				}
			}
		}
		if len(t.Bvs) > 0 {
			// a quantifier binds its variables: closed iff no *other* bound variable is free in it.
			c = d.quantClosed(t)
		}
	}
	d.closed[t] = c
	return c
}

func (d *dagPrinter) quantClosed(t *Term) bool {
	bound := map[*Term]bool{}
	var rec func(x *Term, bound map[*Term]bool) bool
	rec = func(x *Term, bound map[*Term]bool) bool {
		if x.Op == "bvar" {
			return bound[x]
		}
		if len(x.Bvs) > 0 {
			nb := map[*Term]bool{}
			for k := range bound {
				nb[k] = true
			}
			for _, b := range x.Bvs {
				nb[b] = true
			}
			bound = nb
		}
		for _, a := range x.Args {
			if !rec(a, bound) {
				return false
			}
		}
		return true
	}
	return rec(t, bound)
}

func (d *dagPrinter) visit(t *Term) {
	if len(t.Args) == 0 {
		return
	}
	d.count[t]++
	if d.count[t] > 1 {
		return
	}
	for _, a := range t.Args {
		d.visit(a)
	}
}

func (d *dagPrinter) print(t *Term, sb *strings.Builder, top bool) {
	if !top {
		if n, ok := d.named[t]; ok {
			sb.WriteString(n)
			return
		}
		if len(t.Args) > 0 && d.count[t] > 1 && d.isClosed(t) {
			var b strings.Builder
			d.print(t, &b, true)
			n := fmt.Sprintf("$t%d", t.id)
			d.named[t] = n
			d.defs = append(d.defs, "(define-fun "+n+" () "+t.S.Name+" "+b.String()+")\n")
			sb.WriteString(n)
			return
		}
	}
	switch t.Op {
	case "const", "var", "bvar":
		t.write(sb)
	case "app":
		if len(t.Args) == 0 {
			sb.WriteString(smtName(t.Name))
			return
		}
		sb.WriteString("(" + smtName(t.Name))
		for _, a := range t.Args {
			sb.WriteByte(' ')
			d.print(a, sb, false)
		}
		sb.WriteByte(')')
	case "forall", "exists":
		sb.WriteString("(" + t.Op + " (")
		for _, b := range t.Bvs {
			sb.WriteString("(" + smtName(b.Name) + " " + b.S.Name + ")")
		}
		sb.WriteString(") ")
		if len(t.Pats) > 0 {
			sb.WriteString("(! ")
		}
		d.print(t.Args[0], sb, false)
		if len(t.Pats) > 0 {
			for _, p := range t.Pats {
				sb.WriteString(" :pattern (")
				for i, x := range p {
					if i > 0 {
						sb.WriteByte(' ')
					}
					x.write(sb) // patterns are printed in full (no macros inside patterns)
				}
				sb.WriteString(")")
			}
			sb.WriteString(")")
		}
		sb.WriteString(")")
	default:
		sb.WriteString("(" + t.Op)
		for _, a := range t.Args {
			sb.WriteByte(' ')
			d.print(a, sb, false)
		}
		sb.WriteByte(')')
	}
}

// printAsserts renders the assertions with shared closed subterms hoisted.
func printAsserts(asserts []*Term) string {
	d := &dagPrinter{count: map[*Term]int{}, closed: map[*Term]bool{}, named: map[*Term]string{}}
	for _, a := range asserts {
		d.visit(a)
	}
	var body strings.Builder
	var out strings.Builder
	for _, a := range asserts {
		var sb strings.Builder
		d.print(a, &sb, true)
		// flush definitions created while printing this assertion before the assertion itself
		for _, df := range d.defs {
			out.WriteString(df)
		}
		d.defs = d.defs[:0]
		out.WriteString("(assert " + sb.String() + ")\n")
	}
	_ = body
	return out.String()
}
