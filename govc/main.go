package main

import (
	"encoding/json"
	"flag"
	"fmt"
	"os"
	"sort"
	"strings"
	"time"

	"golang.org/x/tools/go/ssa"
)

func (fr *Frame) lockHook(st *State, in ssa.Instruction, ct *Contract, recv *Val, before bool) {
	lockHookImpl(fr, st, in, ct, recv, before)
}

// buildAxioms evaluates axiom/lemma expressions to terms once.
func (e *Engine) buildAxioms() []string {
	var errs []string
	for _, ax := range e.axioms {
		c := e.newCtx(nil, nil)
		env := &Env{c: c, cur: &State{pc: True, cells: map[*ssa.Alloc]*Val{}, heap: map[string]*Term{}, ac: Var("ac0", SInt)}, vars: map[string]*Val{}}
		env.pkg = e.pkgByPath[ax.Pkg]
		bad := false
		for _, lp := range ax.Params {
			var v *Val
			switch lp.Type {
			case "int":
				v = mathInt(Fresh("lem."+lp.Name, SInt))
			case "bool":
				v = mathBool(Fresh("lem."+lp.Name, SBool))
			case "[int]int":
				v = &Val{K: VArr, X: Fresh("lem."+lp.Name, SArr(SInt, SInt))}
			default:
				te, perr := ParseExpr(lp.Type)
				if perr != nil {
					errs = append(errs, fmt.Sprintf("lemma %s: %v", ax.Name, perr))
					bad = true
					continue
				}
				func() {
					defer func() {
						if r := recover(); r != nil {
							errs = append(errs, fmt.Sprintf("lemma %s: unknown type %s", ax.Name, lp.Type))
							bad = true
						}
					}()
					t := env.resolveType(te)
					var facts []*Term
					v, facts = freshVal(t, "lem."+lp.Name)
					for _, f := range facts {
						c.facts = append(c.facts, f)
					}
				}()
			}
			if v != nil {
				env.vars[lp.Name] = v
			}
		}
		if bad {
			continue
		}
		t, err := env.evalClause(ax.E)
		if err != nil {
			errs = append(errs, fmt.Sprintf("axiom %s: %v", ax.Name, err))
			continue
		}
		// lemma instances named in `using`: the instance formula is assumed (the lemma itself is an
		// obligation of its own, and only earlier lemmas may be used)
		for _, u := range ax.Using {
			var target *Axiom
			for _, prev := range e.axioms {
				if prev == ax {
					break
				}
				if prev.Name == u.Name && prev.Lemma {
					target = prev
				}
			}
			if target == nil || len(target.Params) != len(u.Args) {
				errs = append(errs, fmt.Sprintf("lemma %s: using %s: no earlier lemma of that name/arity", ax.Name, u.Name))
				continue
			}
			vars := map[string]*Val{}
			ok := true
			for i, a := range u.Args {
				func() {
					defer func() {
						if r := recover(); r != nil {
							errs = append(errs, fmt.Sprintf("lemma %s: using %s: %v", ax.Name, u.Name, r))
							ok = false
						}
					}()
					vars[target.Params[i].Name] = env.eval(a)
				}()
			}
			if !ok {
				continue
			}
			ienv := &Env{c: c, cur: env.cur, vars: vars, pkg: e.pkgByPath[target.Pkg]}
			it, err := ienv.evalClause(target.E)
			if err != nil {
				errs = append(errs, fmt.Sprintf("lemma %s: using %s: %v", ax.Name, u.Name, err))
				continue
			}
			c.facts = append(c.facts, it)
		}
		syms := map[string]bool{}
		collectSyms([]*Term{t}, syms)
		e.axiomTerms = append(e.axiomTerms, axiomTerm{ax, t, syms, c.facts})
	}
	return errs
}

func main() {
	if len(os.Args) < 2 {
		fmt.Fprintln(os.Stderr, "usage: govc fn|check ...")
		os.Exit(2)
	}
	switch os.Args[1] {
	case "fn":
		cmdFn(os.Args[2:])
	case "check":
		os.Exit(cmdCheck(os.Args[2:]))
	case "ssa":
		cmdSSA(os.Args[2:])
	case "snapshot":
		cmdSnapshot(os.Args[2:])
	default:
		fmt.Fprintln(os.Stderr, "unknown command", os.Args[1])
		os.Exit(2)
	}
}

func cmdSSA(args []string) {
	fs := flag.NewFlagSet("ssa", flag.ExitOnError)
	repo := fs.String("repo", "/repo", "")
	pkgs := fs.String("pkgs", "./...", "")
	fs.Parse(args)
	eng, err := LoadEngine(*repo, "/verif/trusted", strings.Split(*pkgs, ","))
	if err != nil {
		fmt.Fprintln(os.Stderr, err)
		os.Exit(2)
	}
	for _, k := range fs.Args() {
		fn := eng.funcs[k]
		if fn == nil {
			var cands []string
			for n := range eng.funcs {
				if strings.Contains(n, k) {
					cands = append(cands, n)
				}
			}
			sort.Strings(cands)
			fmt.Println("no function", k, "; candidates:", strings.Join(cands, "\n  "))
			continue
		}
		fn.WriteTo(os.Stdout)
	}
}

// cmdFn: development helper — verify the named functions and print every obligation.
func cmdFn(args []string) {
	fs := flag.NewFlagSet("fn", flag.ExitOnError)
	repo := fs.String("repo", "/repo", "")
	pkgs := fs.String("pkgs", "./...", "")
	timeout := fs.Int("timeout", 10, "")
	out := fs.String("out", "/verif/out/dev", "")
	verbose := fs.Bool("v", false, "")
	fs.Parse(args)
	t0 := time.Now()
	eng, err := LoadEngine(*repo, "/verif/trusted", strings.Split(*pkgs, ","))
	if err != nil {
		fmt.Fprintln(os.Stderr, err)
		os.Exit(2)
	}
	for _, e := range eng.buildAxioms() {
		fmt.Println("ERROR", e)
	}
	fmt.Printf("loaded in %.1fs\n", time.Since(t0).Seconds())
	for _, k := range fs.Args() {
		ct := eng.contracts[k]
		fn := eng.funcs[k]
		if ct == nil || fn == nil {
			fmt.Printf("no contract/function for %s (contract=%v fn=%v)\n", k, ct != nil, fn != nil)
			continue
		}
		c := eng.VerifyFunction(fn, ct)
		for _, e := range c.errs {
			fmt.Println("  ENGINE-ERROR:", e)
		}
		discharge(eng, c.obls, dischargeOpts{outDir: *out, timeout: *timeout, jobs: 16})
		for _, o := range c.obls {
			mark := "ok  "
			if !o.ok() {
				mark = "FAIL"
			}
			fmt.Printf("  %s %-50s %-8s %-7s %.2fs  %s\n", mark, o.Name, o.Status, o.Solver, o.Secs, trunc(o.Text, 70))
			if !o.ok() && *verbose {
				fmt.Println("      smt:", o.SMTFile)
			}
		}
		var unk []string
		for u := range c.unknown {
			unk = append(unk, u)
		}
		sort.Strings(unk)
		if len(unk) > 0 {
			fmt.Println("  unknown calls:", strings.Join(unk, "; "))
		}
		for _, n := range c.notes {
			fmt.Println("  note:", n)
		}
	}
}

func trunc(s string, n int) string {
	s = strings.Join(strings.Fields(s), " ")
	if len(s) > n {
		return s[:n] + "…"
	}
	return s
}

// cmdSnapshot writes the (name, type) lists of the locals of every function under contract, in
// instruction order, to stdout (committed as /verif/locals_snapshot.json; see localAlias).
func cmdSnapshot(args []string) {
	fs := flag.NewFlagSet("snapshot", flag.ExitOnError)
	repo := fs.String("repo", "/repo", "")
	fs.Parse(args)
	eng, err := LoadEngine(*repo, "/verif/trusted", []string{"./..."})
	if err != nil {
		fmt.Fprintln(os.Stderr, err)
		os.Exit(2)
	}
	out := map[string][][2]string{}
	for k := range eng.contracts {
		fn := eng.funcs[k]
		if fn == nil || len(fn.Blocks) == 0 {
			continue
		}
		var l [][2]string
		for _, a := range orderedLocals(fn) {
			l = append(l, [2]string{a.Comment, a.Type().String()})
		}
		out[k] = l
	}
	data, _ := json.MarshalIndent(out, "", " ")
	os.Stdout.Write(data)
}
