package main

// Contract language: file parser (declarations, clauses) and expression parser.
// Contracts live in /repo/<pkg>/zz_contracts_verif.go as "//@" comment lines and in
// /verif/trusted/*.spec as plain lines ("--" starts a comment).

import (
	"fmt"
	"math/big"
	"os"
	"strings"
)

type ExprKind int

const (
	ENum ExprKind = iota
	EStr
	EIdent
	EBool
	ENil
	ESel   // Args[0].Name
	EIndex // Args[0][Args[1]]
	ECall  // Name(Args...)  (Name may be "old", "len", a conversion, a spec function)
	EUnary // Op Args[0]
	EBin   // Args[0] Op Args[1]
	ECond  // Args[0] ? Args[1] : Args[2]
	EQuant // Op = forall/exists; Vars; Trig; Args[0] body
	EDeref // *Args[0]
)

type QVar struct {
	Name string
	Type string
}

type Expr struct {
	Kind ExprKind
	Name string
	Op   string
	Num  *big.Int
	Str  string
	Args []*Expr
	Vars []QVar
	Trig [][]*Expr
	Src  string
}

func (e *Expr) String() string {
	if e.Src != "" {
		return e.Src
	}
	switch e.Kind {
	case ENum:
		return e.Num.String()
	case EStr:
		return fmt.Sprintf("%q", e.Str)
	case EIdent:
		return e.Name
	case EBool:
		return e.Name
	case ENil:
		return "nil"
	case ESel:
		return e.Args[0].String() + "." + e.Name
	case EIndex:
		return e.Args[0].String() + "[" + e.Args[1].String() + "]"
	case ECall:
		var as []string
		for _, a := range e.Args {
			as = append(as, a.String())
		}
		return e.Name + "(" + strings.Join(as, ", ") + ")"
	case EUnary:
		return e.Op + e.Args[0].String()
	case EDeref:
		return "*" + e.Args[0].String()
	case EBin:
		return "(" + e.Args[0].String() + " " + e.Op + " " + e.Args[1].String() + ")"
	case ECond:
		return "(" + e.Args[0].String() + " ? " + e.Args[1].String() + " : " + e.Args[2].String() + ")"
	case EQuant:
		return e.Op + " ... :: " + e.Args[0].String()
	}
	return "?"
}

// ---- lexer

type etoken struct {
	kind string // "id", "num", "str", "op", "eof"
	text string
}

func lexExpr(s string) ([]etoken, error) {
	var toks []etoken
	i := 0
	for i < len(s) {
		c := s[i]
		switch {
		case c == ' ' || c == '\t' || c == '\n' || c == '\r':
			i++
		case c >= '0' && c <= '9':
			j := i
			for j < len(s) && (s[j] >= '0' && s[j] <= '9' || s[j] >= 'a' && s[j] <= 'f' || s[j] >= 'A' && s[j] <= 'F' || s[j] == 'x' || s[j] == 'X' || s[j] == '_') {
				j++
			}
			toks = append(toks, etoken{"num", s[i:j]})
			i = j
		case c == '_' || c >= 'a' && c <= 'z' || c >= 'A' && c <= 'Z':
			j := i
			for j < len(s) && (s[j] == '_' || s[j] == '#' || s[j] == '$' || s[j] >= 'a' && s[j] <= 'z' || s[j] >= 'A' && s[j] <= 'Z' || s[j] >= '0' && s[j] <= '9') {
				j++
			}
			toks = append(toks, etoken{"id", s[i:j]})
			i = j
		case c == '"':
			j := i + 1
			for j < len(s) && s[j] != '"' {
				if s[j] == '\\' {
					j++
				}
				j++
			}
			if j >= len(s) {
				return nil, fmt.Errorf("unterminated string")
			}
			str := s[i+1 : j]
			str = strings.ReplaceAll(str, "\\n", "\n")
			str = strings.ReplaceAll(str, "\\\"", "\"")
			toks = append(toks, etoken{"str", str})
			i = j + 1
		default:
			ops := []string{"<==>", "==>", "::", "&&", "||", "==", "!=", "<=", ">=", "<<", ">>", "..", "+", "-", "*", "/", "%", "!", "(", ")", "[", "]", "{", "}", ",", ".", "?", ":", "<", ">", "&", "|"}
			found := false
			for _, o := range ops {
				if strings.HasPrefix(s[i:], o) {
					toks = append(toks, etoken{"op", o})
					i += len(o)
					found = true
					break
				}
			}
			if !found {
				return nil, fmt.Errorf("unexpected character %q in %q", c, s)
			}
		}
	}
	toks = append(toks, etoken{"eof", ""})
	return toks, nil
}

type eparser struct {
	toks []etoken
	pos  int
	src  string
}

func (p *eparser) peek() etoken { return p.toks[p.pos] }
func (p *eparser) next() etoken { t := p.toks[p.pos]; p.pos++; return t }
func (p *eparser) isOp(o string) bool {
	t := p.peek()
	return t.kind == "op" && t.text == o
}
func (p *eparser) expectOp(o string) {
	if !p.isOp(o) {
		panic(fmt.Errorf("expected %q at token %d (%q) in: %s", o, p.pos, p.peek().text, p.src))
	}
	p.pos++
}

func ParseExpr(s string) (e *Expr, err error) {
	defer func() {
		if r := recover(); r != nil {
			if re, ok := r.(error); ok {
				err = re
				return
			}
			panic(r)
		}
	}()
	toks, err := lexExpr(s)
	if err != nil {
		return nil, err
	}
	p := &eparser{toks: toks, src: s}
	e = p.parseTop()
	if p.peek().kind != "eof" {
		return nil, fmt.Errorf("trailing tokens at %q in: %s", p.peek().text, s)
	}
	e.Src = strings.Join(strings.Fields(s), " ")
	return e, nil
}

func (p *eparser) parseTop() *Expr {
	t := p.peek()
	if t.kind == "id" && (t.text == "forall" || t.text == "exists") {
		return p.parseQuant()
	}
	return p.parseIff()
}

func (p *eparser) parseQuant() *Expr {
	q := p.next().text
	e := &Expr{Kind: EQuant, Op: q}
	for {
		name := p.next()
		if name.kind != "id" {
			panic(fmt.Errorf("quantifier: expected variable name in: %s", p.src))
		}
		typ := "int"
		if p.peek().kind == "id" {
			typ = p.next().text
			for p.isOp(".") { // qualified type
				p.next()
				typ += "." + p.next().text
			}
		}
		e.Vars = append(e.Vars, QVar{name.text, typ})
		if p.isOp(",") {
			p.next()
			continue
		}
		break
	}
	for p.isOp("{") {
		p.next()
		var pat []*Expr
		for {
			pat = append(pat, p.parseIff())
			if p.isOp(",") {
				p.next()
				continue
			}
			break
		}
		p.expectOp("}")
		e.Trig = append(e.Trig, pat)
	}
	p.expectOp("::")
	e.Args = []*Expr{p.parseTop()}
	return e
}

func (p *eparser) parseIff() *Expr {
	l := p.parseImplies()
	for p.isOp("<==>") {
		p.next()
		r := p.parseImplies()
		l = &Expr{Kind: EBin, Op: "<==>", Args: []*Expr{l, r}}
	}
	return l
}

func (p *eparser) parseImplies() *Expr {
	l := p.parseCond()
	if p.isOp("==>") {
		p.next()
		var r *Expr
		t := p.peek()
		if t.kind == "id" && (t.text == "forall" || t.text == "exists") {
			r = p.parseQuant()
		} else {
			r = p.parseImplies()
		}
		return &Expr{Kind: EBin, Op: "==>", Args: []*Expr{l, r}}
	}
	return l
}

func (p *eparser) parseCond() *Expr {
	c := p.parseOr()
	if p.isOp("?") {
		p.next()
		a := p.parseCond()
		p.expectOp(":")
		b := p.parseCond()
		return &Expr{Kind: ECond, Args: []*Expr{c, a, b}}
	}
	return c
}

func (p *eparser) parseOr() *Expr {
	l := p.parseAnd()
	for p.isOp("||") {
		p.next()
		r := p.parseAnd()
		l = &Expr{Kind: EBin, Op: "||", Args: []*Expr{l, r}}
	}
	return l
}

func (p *eparser) parseAnd() *Expr {
	l := p.parseCmp()
	for p.isOp("&&") {
		p.next()
		var r *Expr
		t := p.peek()
		if t.kind == "id" && (t.text == "forall" || t.text == "exists") {
			r = p.parseQuant()
		} else {
			r = p.parseCmp()
		}
		l = &Expr{Kind: EBin, Op: "&&", Args: []*Expr{l, r}}
	}
	return l
}

func (p *eparser) parseCmp() *Expr {
	l := p.parseAddE()
	for {
		t := p.peek()
		if t.kind == "op" && (t.text == "==" || t.text == "!=" || t.text == "<" || t.text == "<=" || t.text == ">" || t.text == ">=") {
			p.next()
			r := p.parseAddE()
			l = &Expr{Kind: EBin, Op: t.text, Args: []*Expr{l, r}}
			continue
		}
		return l
	}
}

func (p *eparser) parseAddE() *Expr {
	l := p.parseMulE()
	for p.isOp("+") || p.isOp("-") {
		o := p.next().text
		r := p.parseMulE()
		l = &Expr{Kind: EBin, Op: o, Args: []*Expr{l, r}}
	}
	return l
}

func (p *eparser) parseMulE() *Expr {
	l := p.parseUnary()
	for p.isOp("*") || p.isOp("/") || p.isOp("%") {
		o := p.next().text
		r := p.parseUnary()
		l = &Expr{Kind: EBin, Op: o, Args: []*Expr{l, r}}
	}
	return l
}

func (p *eparser) parseUnary() *Expr {
	if p.isOp("!") {
		p.next()
		return &Expr{Kind: EUnary, Op: "!", Args: []*Expr{p.parseUnary()}}
	}
	if p.isOp("-") {
		p.next()
		return &Expr{Kind: EUnary, Op: "-", Args: []*Expr{p.parseUnary()}}
	}
	if p.isOp("*") {
		p.next()
		return &Expr{Kind: EDeref, Args: []*Expr{p.parseUnary()}}
	}
	return p.parsePostfix()
}

func (p *eparser) parsePostfix() *Expr {
	e := p.parsePrimary()
	for {
		switch {
		case p.isOp("."):
			p.next()
			if p.isOp("*") { // location wildcard x.*
				p.next()
				e = &Expr{Kind: ESel, Name: "*", Args: []*Expr{e}}
				continue
			}
			n := p.next()
			if n.kind != "id" {
				panic(fmt.Errorf("expected field name after '.' in: %s", p.src))
			}
			e = &Expr{Kind: ESel, Name: n.text, Args: []*Expr{e}}
		case p.isOp("["):
			p.next()
			if p.isOp("*") {
				p.next()
				p.expectOp("]")
				e = &Expr{Kind: EIndex, Args: []*Expr{e, {Kind: EIdent, Name: "*"}}}
				continue
			}
			i := p.parseIff()
			p.expectOp("]")
			e = &Expr{Kind: EIndex, Args: []*Expr{e, i}}
		case p.isOp("("):
			// call: callee must be ident or pkg.ident
			name := ""
			if e.Kind == EIdent {
				name = e.Name
			} else if e.Kind == ESel && e.Args[0].Kind == EIdent {
				name = e.Args[0].Name + "." + e.Name
			} else {
				panic(fmt.Errorf("call of non-identifier in: %s", p.src))
			}
			p.next()
			var args []*Expr
			for !p.isOp(")") {
				args = append(args, p.parseTop())
				if p.isOp(",") {
					p.next()
				}
			}
			p.expectOp(")")
			e = &Expr{Kind: ECall, Name: name, Args: args}
		default:
			return e
		}
	}
}

func (p *eparser) parsePrimary() *Expr {
	t := p.next()
	switch t.kind {
	case "num":
		txt := strings.ReplaceAll(t.text, "_", "")
		n := new(big.Int)
		var ok bool
		if strings.HasPrefix(txt, "0x") || strings.HasPrefix(txt, "0X") {
			_, ok = n.SetString(txt[2:], 16)
		} else {
			_, ok = n.SetString(txt, 10)
		}
		if !ok {
			panic(fmt.Errorf("bad number %q", t.text))
		}
		return &Expr{Kind: ENum, Num: n}
	case "str":
		return &Expr{Kind: EStr, Str: t.text}
	case "id":
		switch t.text {
		case "true", "false":
			return &Expr{Kind: EBool, Name: t.text}
		case "nil":
			return &Expr{Kind: ENil}
		}
		return &Expr{Kind: EIdent, Name: t.text}
	case "op":
		if t.text == "(" {
			e := p.parseTop()
			p.expectOp(")")
			return e
		}
	}
	panic(fmt.Errorf("unexpected token %q in: %s", t.text, p.src))
}

// ---- declarations

type Clause struct {
	Kind string   // requires, ensures, modifies(list in Locs), invariant, decreases, assert, ghost_at_return
	Tags []string // optional property tags: ensures[C01,C08]
	E    *Expr
	Locs []*Expr
	LHS  *Expr // ghost_at_return LHS := E
	Text string
}

type LoopSpec struct {
	Progress   []*Expr // expressions that must strictly increase on every iteration (C07 progress)
	Ordinal    int
	Invariants []*Clause
	Decreases  *Expr
}

type ParamDecl struct {
	Name string
	Type string
}

type Contract struct {
	Kind      string // "func", "interface", "functype"
	Key       string // canonical key, e.g. "github.com/x/y.ReadN", "(*github.com/x/y.Header).Read", "io.Reader.Read"
	Header    string
	Recv      *ParamDecl
	Params    []ParamDecl
	Results   []ParamDecl
	Tags      []string
	Ghosts    []ParamDecl
	Requires  []*Clause
	Ensures   []*Clause
	Modifies  []*Expr
	GhostRet  []*Clause
	Loops     map[int]*LoopSpec
	Asserts   map[string][]*Clause // "callee#n" -> asserts before that call
	Trusted   bool                 // body not verified (assumed)
	Inline    bool
	Pure      bool
	NoSafety  bool
	File      string
	Line      int
	Opts      map[string]string
	IsTrustedFile bool
	Private []*Expr // locations private to the call (e.g. a detached table): unchanged by callees' havoc (assumption)
	extraVars map[string]*Val // captured variables of a contracted function literal at a call site
	implOf  *Contract         // merged implementer contract: the interface contract it refines
	Aliases map[string]string // extra name -> canonical receiver/parameter/result name
}

type SpecFunc struct {
	Name    string
	Params  []ParamDecl
	RetType string
	Body    *Expr // nil: uninterpreted
	File    string
}

type Axiom struct {
	Using  []*Expr // lemma instances assumed while proving this lemma (each is proved on its own)
	Params []ParamDecl
	Pkg   string
	Name  string
	E     *Expr
	Lemma bool   // must be proved
	By    string // "", "bv", "induction n"
	File  string
	Tags  []string
}

type GhostField struct {
	Counter bool // only changed by explicit contract clauses: survives havoc-all (assumption: uncontracted callees do not perform the counted operation)
	Name string
	Type string // int, bool, [int]int, [int]bool
}

type Guarded struct {
	RecvName string
	RecvType string // e.g. "*endPoint"
	Mutex    *Expr
	Locs     []*Expr
	Monitor  []*Clause
	Assumed  []*Clause // history assumptions: assumed at every acquire, never asserted (listed in the evidence)
	Pkg      string
}

type SpecFile struct {
	Pkg       string // package path for /repo files; "" for trusted
	Path      string
	Contracts []*Contract
	Specs     []*SpecFunc
	Axioms    []*Axiom
	Ghosts    []*GhostField
	Guards    []*Guarded
	Consts    map[string]*big.Int
	Trusted   bool
	Immutable []string // Type.field: assigned only during construction, survives havoc-all (assumption)
}

var clauseKeywords = map[string]bool{
	"func": true, "interface": true, "functype": true, "fieldfunc": true, "spec": true, "axiom": true, "lemma": true,
	"ghostfield": true, "guarded_by": true, "monitor": true, "tags": true, "requires": true, "ensures": true,
	"modifies": true, "loop": true, "invariant": true, "decreases": true, "ghost": true, "trusted": true,
	"inline": true, "pure": true, "ghost_at_return": true, "call": true, "const": true, "nosafety": true, "opt": true, "decoder": true, "encoder": true, "progress": true, "monitor_assume": true, "immutable": true, "private": true,
}

// logicalLines strips the comment prefix and joins continuation lines.
func logicalLines(path string, isGo bool) ([]string, []int, error) {
	data, err := os.ReadFile(path)
	if err != nil {
		return nil, nil, err
	}
	var out []string
	var lines []int
	for ln, raw := range strings.Split(string(data), "\n") {
		s := raw
		if isGo {
			t := strings.TrimSpace(s)
			if !strings.HasPrefix(t, "//@") {
				continue
			}
			s = strings.TrimPrefix(t, "//@")
		}
		if i := strings.Index(s, " -- "); i >= 0 {
			s = s[:i]
		}
		t := strings.TrimSpace(s)
		if strings.HasPrefix(t, "--") || t == "" {
			continue
		}
		first := t
		if i := strings.IndexAny(t, " \t[:("); i >= 0 {
			first = t[:i]
		}
		if clauseKeywords[first] || len(out) == 0 {
			out = append(out, t)
			lines = append(lines, ln+1)
		} else {
			out[len(out)-1] += " " + t
		}
	}
	return out, lines, nil
}

func splitTop(s string, sep byte) []string {
	var parts []string
	depth := 0
	start := 0
	for i := 0; i < len(s); i++ {
		switch s[i] {
		case '(', '[', '{':
			depth++
		case ')', ']', '}':
			depth--
		default:
			if s[i] == sep && depth == 0 {
				parts = append(parts, strings.TrimSpace(s[start:i]))
				start = i + 1
			}
		}
	}
	if strings.TrimSpace(s[start:]) != "" {
		parts = append(parts, strings.TrimSpace(s[start:]))
	}
	return parts
}

func parseParamList(s string) []ParamDecl {
	var ps []ParamDecl
	for _, part := range splitTop(s, ',') {
		f := strings.Fields(part)
		if len(f) == 0 {
			continue
		}
		pd := ParamDecl{Name: f[0]}
		if len(f) > 1 {
			pd.Type = strings.Join(f[1:], " ")
		}
		ps = append(ps, pd)
	}
	return ps
}

// matching paren: s[i] == '(' -> index of matching ')'
func matchParen(s string, i int) int {
	depth := 0
	for j := i; j < len(s); j++ {
		switch s[j] {
		case '(':
			depth++
		case ')':
			depth--
			if depth == 0 {
				return j
			}
		}
	}
	return -1
}

// parseFuncHeader parses "func (h *Header) Read(r io.Reader) (err error)" (keyword already stripped).
func parseFuncHeader(kind, rest, pkg string) (*Contract, error) {
	c := &Contract{Kind: kind, Header: rest, Loops: map[int]*LoopSpec{}, Asserts: map[string][]*Clause{}, Opts: map[string]string{}}
	s := strings.TrimSpace(rest)
	if strings.HasPrefix(s, "(") {
		j := matchParen(s, 0)
		if j < 0 {
			return nil, fmt.Errorf("bad receiver in %q", rest)
		}
		r := parseParamList(s[1:j])
		if len(r) != 1 || r[0].Type == "" {
			return nil, fmt.Errorf("receiver must be '(name Type)' in %q", rest)
		}
		c.Recv = &r[0]
		s = strings.TrimSpace(s[j+1:])
	}
	i := strings.Index(s, "(")
	if i < 0 {
		return nil, fmt.Errorf("missing parameter list in %q", rest)
	}
	name := strings.TrimSpace(s[:i])
	j := matchParen(s, i)
	if j < 0 {
		return nil, fmt.Errorf("unbalanced parens in %q", rest)
	}
	c.Params = parseParamList(s[i+1 : j])
	res := strings.TrimSpace(s[j+1:])
	if res != "" {
		if strings.HasPrefix(res, "(") {
			k := matchParen(res, 0)
			c.Results = parseParamList(res[1:k])
		} else {
			c.Results = []ParamDecl{{Name: "result", Type: res}}
		}
	}
	qual := func(t string) string { // qualify a type name with pkg if unqualified
		star := ""
		if strings.HasPrefix(t, "*") {
			star = "*"
			t = t[1:]
		}
		if !strings.Contains(t, ".") && pkg != "" {
			t = pkg + "." + t
		}
		return star + t
	}
	switch kind {
	case "func":
		if c.Recv != nil {
			c.Key = "(" + qual(c.Recv.Type) + ")." + name
		} else if strings.Contains(name, ".") || pkg == "" {
			c.Key = name
		} else {
			c.Key = pkg + "." + name
		}
	case "interface":
		if c.Recv == nil {
			return nil, fmt.Errorf("interface contract needs a receiver: %q", rest)
		}
		c.Key = qual(c.Recv.Type) + "." + name
	case "functype":
		c.Key = qual(name)
	case "fieldfunc": // call through a function-valued struct field: key "<pkg>.<Struct>.<field>"
		if c.Recv == nil {
			return nil, fmt.Errorf("fieldfunc contract needs a receiver: %q", rest)
		}
		c.Key = strings.TrimPrefix(qual(c.Recv.Type), "*") + "." + name
	}
	return c, nil
}

func parseTagsPrefix(s string) ([]string, string) {
	// s begins right after the keyword; optional [C01,C02]
	s = strings.TrimSpace(s)
	if strings.HasPrefix(s, "[") {
		j := strings.Index(s, "]")
		if j > 0 {
			var tags []string
			for _, t := range strings.Split(s[1:j], ",") {
				tags = append(tags, strings.TrimSpace(t))
			}
			return tags, strings.TrimSpace(s[j+1:])
		}
	}
	return nil, s
}

func ParseSpecFile(path, pkg string, isGo, trusted bool) (*SpecFile, error) {
	lines, lnos, err := logicalLines(path, isGo)
	if err != nil {
		return nil, err
	}
	sf := &SpecFile{Pkg: pkg, Path: path, Consts: map[string]*big.Int{}, Trusted: trusted}
	var cur *Contract
	var curLoop *LoopSpec
	var curGuard *Guarded
	fail := func(i int, f string, a ...interface{}) error {
		return fmt.Errorf("%s:%d: %s", path, lnos[i], fmt.Sprintf(f, a...))
	}
	for i, l := range lines {
		kw := l
		rest := ""
		if j := strings.IndexAny(l, " \t[:("); j >= 0 {
			kw = l[:j]
			rest = strings.TrimSpace(l[j:])
			if l[j] == '[' || l[j] == '(' {
				rest = l[j:]
			}
		}
		mkClause := func(kind string) (*Clause, error) {
			tags, body := parseTagsPrefix(rest)
			e, err := ParseExpr(body)
			if err != nil {
				return nil, fail(i, "%v", err)
			}
			return &Clause{Kind: kind, Tags: tags, E: e, Text: body}, nil
		}
		switch kw {
		case "func", "interface", "functype", "fieldfunc":
			c, err := parseFuncHeader(kw, rest, pkg)
			if err != nil {
				return nil, fail(i, "%v", err)
			}
			c.File = path
			c.Line = lnos[i]
			c.Trusted = trusted
			c.IsTrustedFile = trusted
			sf.Contracts = append(sf.Contracts, c)
			cur = c
			curLoop = nil
			curGuard = nil
		case "tags":
			if cur == nil {
				return nil, fail(i, "tags outside a contract")
			}
			cur.Tags = append(cur.Tags, strings.Fields(rest)...)
		case "trusted":
			cur.Trusted = true
		case "inline":
			cur.Inline = true
		case "pure":
			cur.Pure = true
		case "nosafety":
			cur.NoSafety = true
		case "opt":
			f := strings.Fields(rest)
			if len(f) == 2 {
				cur.Opts[f[0]] = f[1]
			}
		case "ghost":
			cur.Ghosts = append(cur.Ghosts, parseParamList(rest)...)
		case "requires":
			cl, err := mkClause("requires")
			if err != nil {
				return nil, err
			}
			cur.Requires = append(cur.Requires, cl)
		case "ensures":
			cl, err := mkClause("ensures")
			if err != nil {
				return nil, err
			}
			cur.Ensures = append(cur.Ensures, cl)
		case "modifies":
			for _, part := range splitTop(rest, ',') {
				e, err := ParseExpr(part)
				if err != nil {
					return nil, fail(i, "%v", err)
				}
				if curGuard != nil {
					curGuard.Locs = append(curGuard.Locs, e)
				} else {
					cur.Modifies = append(cur.Modifies, e)
				}
			}
		case "private":
			for _, part := range splitTop(rest, ',') {
				e, err := ParseExpr(part)
				if err != nil {
					return nil, fail(i, "%v", err)
				}
				cur.Private = append(cur.Private, e)
			}
		case "ghost_at_return":
			parts := strings.SplitN(rest, ":=", 2)
			if len(parts) != 2 {
				return nil, fail(i, "ghost_at_return needs 'loc := expr'")
			}
			lhs, err := ParseExpr(parts[0])
			if err != nil {
				return nil, fail(i, "%v", err)
			}
			rhs, err := ParseExpr(parts[1])
			if err != nil {
				return nil, fail(i, "%v", err)
			}
			cur.GhostRet = append(cur.GhostRet, &Clause{Kind: "ghost_at_return", LHS: lhs, E: rhs, Text: rest})
		case "loop":
			var n int
			if _, err := fmt.Sscanf(strings.TrimSuffix(strings.TrimSpace(rest), ":"), "%d", &n); err != nil {
				return nil, fail(i, "loop needs an ordinal: %q", rest)
			}
			curLoop = &LoopSpec{Ordinal: n}
			cur.Loops[n] = curLoop
		case "invariant":
			cl, err := mkClause("invariant")
			if err != nil {
				return nil, err
			}
			if curGuard != nil {
				curGuard.Monitor = append(curGuard.Monitor, cl)
			} else if curLoop == nil {
				return nil, fail(i, "invariant outside loop")
			} else {
				curLoop.Invariants = append(curLoop.Invariants, cl)
			}
		case "decreases":
			e, err := ParseExpr(rest)
			if err != nil {
				return nil, fail(i, "%v", err)
			}
			if curLoop != nil {
				curLoop.Decreases = e
			}
		case "progress":
			e, err := ParseExpr(rest)
			if err != nil {
				return nil, fail(i, "%v", err)
			}
			if curLoop == nil {
				return nil, fail(i, "progress outside loop")
			}
			curLoop.Progress = append(curLoop.Progress, e)
		case "call": // call ReadN#2: assert expr
			parts := strings.SplitN(rest, ":", 2)
			if len(parts) != 2 {
				return nil, fail(i, "call clause needs 'callee#n: assert expr'")
			}
			body := strings.TrimSpace(parts[1])
			ghostKind := "ghost"
			if strings.HasPrefix(body, "ghost_after ") {
				// like ghost, but applied in the state right after the call, with result0.. bound to its results
				ghostKind = "ghost_after"
				body = "ghost " + strings.TrimPrefix(body, "ghost_after ")
			}
			if strings.HasPrefix(body, "ghost ") {
				ga := strings.SplitN(strings.TrimPrefix(body, "ghost "), ":=", 2)
				if len(ga) != 2 {
					return nil, fail(i, "call clause: ghost loc := expr")
				}
				lhs, err := ParseExpr(ga[0])
				if err != nil {
					return nil, fail(i, "%v", err)
				}
				rhs, err := ParseExpr(ga[1])
				if err != nil {
					return nil, fail(i, "%v", err)
				}
				k := strings.TrimSpace(parts[0])
				cur.Asserts[k] = append(cur.Asserts[k], &Clause{Kind: ghostKind, LHS: lhs, E: rhs, Text: body})
				continue
			}
			if strings.HasPrefix(body, "assume_after ") {
				e, err := ParseExpr(strings.TrimPrefix(body, "assume_after "))
				if err != nil {
					return nil, fail(i, "%v", err)
				}
				k := strings.TrimSpace(parts[0])
				cur.Asserts[k] = append(cur.Asserts[k], &Clause{Kind: "assume_after", E: e, Text: strings.TrimPrefix(body, "assume_after ")})
				continue
			}
			if strings.HasPrefix(body, "cover ") {
				// reachability obligation: this call site must be reachable with the condition true
				e, err := ParseExpr(strings.TrimPrefix(body, "cover "))
				if err != nil {
					return nil, fail(i, "%v", err)
				}
				k := strings.TrimSpace(parts[0])
				cur.Asserts[k] = append(cur.Asserts[k], &Clause{Kind: "cover", E: e, Text: strings.TrimPrefix(body, "cover ")})
				continue
			}
			if strings.HasPrefix(body, "assume ") {
				e, err := ParseExpr(strings.TrimPrefix(body, "assume "))
				if err != nil {
					return nil, fail(i, "%v", err)
				}
				k := strings.TrimSpace(parts[0])
				cur.Asserts[k] = append(cur.Asserts[k], &Clause{Kind: "assume", E: e, Text: strings.TrimPrefix(body, "assume ")})
				continue
			}
			if !strings.HasPrefix(body, "assert") {
				return nil, fail(i, "only 'assert', 'assume' or 'ghost' supported in call clauses")
			}
			tags, b2 := parseTagsPrefix(strings.TrimPrefix(body, "assert"))
			e, err := ParseExpr(b2)
			if err != nil {
				return nil, fail(i, "%v", err)
			}
			k := strings.TrimSpace(parts[0])
			cur.Asserts[k] = append(cur.Asserts[k], &Clause{Kind: "assert", Tags: tags, E: e, Text: b2})
		case "decoder", "encoder":
			// schema macros (DESIGN.md §4): expand to ordinary clauses
			f := strings.Fields(rest)
			if cur == nil || len(f) < 1 {
				return nil, fail(i, "%s <stream parameter> [fixed N]", kw)
			}
			errName := "err"
			if n := len(cur.Results); n > 0 {
				errName = cur.Results[n-1].Name
			}
			v := f[0]
			var req, ens, mods []string
			if kw == "decoder" {
				// C07 default: a decoder allocates nothing whose size comes from the input, unless the
				// contract names a limit (opt alloclimit N)
				if _, set := cur.Opts["alloclimit"]; !set {
					cur.Opts["alloclimit"] = "0"
				}
				req = []string{v + " != nil", "0 <= " + v + ".pos && " + v + ".pos <= " + v + ".len"}
				mods = []string{v + ".pos", v + ".reads", v + ".short"}
				ens = []string{
					v + ".pos >= old(" + v + ".pos) && " + v + ".pos <= " + v + ".len",
					"[C08] " + v + ".short ==> (" + errName + " != nil || old(" + v + ".short))",
					"[C08] old(" + v + ".short) ==> " + v + ".short",
				}
				if len(f) == 3 && f[1] == "fixed" {
					n := f[2]
					ens = append(ens,
						v+".pos <= old("+v+".pos) + "+n,
						errName+" == nil ==> "+v+".pos == old("+v+".pos) + "+n,
						"[C08] old("+v+".len) - old("+v+".pos) < "+n+" ==> "+errName+" != nil",
						"[C08] "+errName+" != nil ==> "+v+".short",
						"[C01,C02,C03] "+v+".faultfree && old("+v+".len) - old("+v+".pos) >= "+n+" ==> "+errName+" == nil")
				}
			} else {
				req = []string{v + " != nil"}
				mods = []string{v + ".len", v + ".writes", v + ".data", v + ".wfailed"}
				ens = []string{
					"[C03] " + v + ".wfailed ==> (" + errName + " != nil || old(" + v + ".wfailed))",
					"[C03] old(" + v + ".wfailed) ==> " + v + ".wfailed",
					v + ".len >= old(" + v + ".len)",
					"forall j int {" + v + ".data[j]} :: j < old(" + v + ".len) ==> " + v + ".data[j] == old(" + v + ".data[j])",
				}
				if len(f) == 3 && f[1] == "fixed" {
					n := f[2]
					ens = append(ens,
						v+".len <= old("+v+".len) + "+n,
						errName+" == nil ==> "+v+".len == old("+v+".len) + "+n,
						v+".accepting ==> "+errName+" == nil")
				}
			}
			for _, r := range req {
				e, err := ParseExpr(r)
				if err != nil {
					return nil, fail(i, "%v", err)
				}
				cur.Requires = append(cur.Requires, &Clause{Kind: "requires", E: e, Text: r})
			}
			for _, m := range mods {
				e, err := ParseExpr(m)
				if err != nil {
					return nil, fail(i, "%v", err)
				}
				cur.Modifies = append(cur.Modifies, e)
			}
			for _, x := range ens {
				tags, body := parseTagsPrefix(x)
				e, err := ParseExpr(body)
				if err != nil {
					return nil, fail(i, "%v", err)
				}
				cur.Ensures = append(cur.Ensures, &Clause{Kind: "ensures", Tags: tags, E: e, Text: body})
			}
		case "immutable":
			for _, f := range splitTop(rest, ',') {
				sf.Immutable = append(sf.Immutable, strings.TrimSpace(f))
			}
		case "ghostfield":
			f := strings.Fields(rest)
			if len(f) != 2 && !(len(f) == 3 && f[2] == "counter") {
				return nil, fail(i, "ghostfield name type [counter]")
			}
			sf.Ghosts = append(sf.Ghosts, &GhostField{Name: f[0], Type: f[1], Counter: len(f) == 3})
		case "const":
			f := strings.Fields(rest)
			if len(f) != 2 {
				return nil, fail(i, "const name value")
			}
			e, err := ParseExpr(f[1])
			if err != nil || e.Kind != ENum {
				return nil, fail(i, "const value must be a number")
			}
			sf.Consts[f[0]] = e.Num
		case "spec":
			// spec name(params) type := expr      |   spec name(params) type
			k := strings.Index(rest, "(")
			if k < 0 {
				return nil, fail(i, "spec needs parameters")
			}
			j := matchParen(rest, k)
			s := &SpecFunc{Name: strings.TrimSpace(rest[:k]), Params: parseParamList(rest[k+1 : j]), File: path}
			tail := strings.TrimSpace(rest[j+1:])
			if m := strings.Index(tail, ":="); m >= 0 {
				s.RetType = strings.TrimSpace(tail[:m])
				e, err := ParseExpr(tail[m+2:])
				if err != nil {
					return nil, fail(i, "%v", err)
				}
				s.Body = e
			} else {
				s.RetType = tail
			}
			sf.Specs = append(sf.Specs, s)
			cur = nil
		case "axiom", "lemma":
			tags, r2 := parseTagsPrefix(rest)
			var lparams []ParamDecl
			if k := strings.Index(r2, "("); k >= 0 && k < strings.Index(r2+":", ":") {
				j := matchParen(r2, k)
				if j < 0 {
					return nil, fail(i, "unbalanced lemma parameters")
				}
				lparams = parseParamList(r2[k+1 : j])
				r2 = r2[:k] + r2[j+1:]
			}
			parts := strings.SplitN(r2, ":", 2)
			if len(parts) != 2 {
				return nil, fail(i, "%s needs 'name: expr'", kw)
			}
			body := parts[1]
			by := ""
			if m := strings.LastIndex(body, " by "); m >= 0 && kw == "lemma" {
				by = strings.TrimSpace(body[m+4:])
				body = body[:m]
			}
			var using []*Expr
			if m := strings.Index(body, " using "); m >= 0 && kw == "lemma" {
				for _, u := range splitTop(body[m+7:], ',') {
					ue, err := ParseExpr(u)
					if err != nil || ue.Kind != ECall {
						return nil, fail(i, "using needs lemma instances name(args): %q", u)
					}
					using = append(using, ue)
				}
				body = body[:m]
			}
			e, err := ParseExpr(body)
			if err != nil {
				return nil, fail(i, "%v", err)
			}
			sf.Axioms = append(sf.Axioms, &Axiom{Using: using, Params: lparams, Pkg: pkg, Name: strings.TrimSpace(parts[0]), E: e, Lemma: kw == "lemma", By: by, File: path, Tags: tags})
			cur = nil
		case "guarded_by": // guarded_by (e *endPoint) e.handlersMutex: e.handlers, e.handlers[*]
			if !strings.HasPrefix(rest, "(") {
				return nil, fail(i, "guarded_by (recv Type) mutex: locs")
			}
			j := matchParen(rest, 0)
			r := parseParamList(rest[1:j])
			parts := strings.SplitN(rest[j+1:], ":", 2)
			if len(r) != 1 || len(parts) != 2 {
				return nil, fail(i, "guarded_by (recv Type) mutex: locs")
			}
			me, err := ParseExpr(parts[0])
			if err != nil {
				return nil, fail(i, "%v", err)
			}
			g := &Guarded{RecvName: r[0].Name, RecvType: r[0].Type, Mutex: me, Pkg: pkg}
			for _, part := range splitTop(parts[1], ',') {
				e, err := ParseExpr(part)
				if err != nil {
					return nil, fail(i, "%v", err)
				}
				g.Locs = append(g.Locs, e)
			}
			sf.Guards = append(sf.Guards, g)
			curGuard = g
			cur = nil
		case "monitor_assume":
			if curGuard == nil {
				return nil, fail(i, "monitor_assume outside guarded_by")
			}
			cl, err := mkClause("monitor_assume")
			if err != nil {
				return nil, err
			}
			curGuard.Assumed = append(curGuard.Assumed, cl)
		case "monitor":
			if curGuard == nil {
				return nil, fail(i, "monitor outside guarded_by")
			}
			cl, err := mkClause("monitor")
			if err != nil {
				return nil, err
			}
			curGuard.Monitor = append(curGuard.Monitor, cl)
		default:
			return nil, fail(i, "unknown clause %q", kw)
		}
	}
	return sf, nil
}
